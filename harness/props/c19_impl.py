"""C19, implementation side: hand-built worlds of argument objects, deep snapshots, and the five
plotting entry points of the real osyris called on them.

A *case* is JSON: the description of a world (Layers built through `Datagroup.layer(key, **opts)`,
call-level option dicts, a resolution dict, shared norm objects / bin-edge lists, window and origin)
and a list of calls referring to those objects.  Option values travel as tokens (strings); `decode`
turns a token into the Python value handed to osyris and `encode` turns what osyris shows back into
the token (by identity for objects owned by the world)."""
import contextlib
import hashlib
import io
from fractions import Fraction

import numpy as np

FIELDS = ["mode", "operation", "norm", "vmin", "vmax", "bins", "weights"]
FLOAT_KEYS = {"alpha", "lw", "linewidth", "linewidths", "rwidth", "ms", "markersize"}
INT_KEYS = {"zorder", "levels"}
BOOL_KEYS = {"cbar", "rasterized", "fill", "snap", "antialiased", "cumulative"}
SITES = {"map": "plot.map.map", "histogram2d": "plot.histogram2d.histogram2d", "histogram1d": "plot.histogram1d.histogram1d",
         "scatter": "plot.scatter.scatter", "plot": "plot.plot.plot", "parse_layer": "plot.parser.parse_layer",
         "update": "core.layer.Layer.update"}


def frac(tok):
    return Fraction(tok)


def fstr(v):
    f = Fraction(float(v))
    return str(f.numerator) if f.denominator == 1 else f"{f.numerator}/{f.denominator}"


# --------------------------------------------------------------------------------------------
# the mesh: a two-level 3-D AMR tiling of the unit cube with dyadic coordinates (15 leaves)
# --------------------------------------------------------------------------------------------
def mesh_rows():
    pts, dxs = [], []
    for i in range(2):
        for j in range(2):
            for k in range(2):
                if (i, j, k) == (0, 0, 0):
                    for a in range(2):
                        for b in range(2):
                            for c in range(2):
                                pts.append((0.125 + 0.25 * a, 0.125 + 0.25 * b, 0.125 + 0.25 * c))
                                dxs.append(0.25)
                else:
                    pts.append((0.25 + 0.5 * i, 0.25 + 0.5 * j, 0.25 + 0.5 * k))
                    dxs.append(0.5)
    return np.array(pts), np.array(dxs)


def build_mesh(osy):
    p, dxs = mesh_rows()
    n = len(dxs)
    dg = osy.Datagroup()
    dg["position"] = osy.Vector(p[:, 0].copy(), p[:, 1].copy(), p[:, 2].copy(), unit="cm")
    dg["dx"] = osy.Array(dxs.copy(), unit="cm")
    # dyadic values: every sum / mean the kernels form is exact in double precision
    dg["density"] = osy.Array(np.array([1 + (k % 5) * 0.5 + (k // 5) * 0.25 for k in range(n)]), unit="g/cm**3")
    dg["mass"] = osy.Array(np.array([2.0 + (k * 3 % 7) * 0.25 for k in range(n)]), unit="g")
    dg["temperature"] = osy.Array(np.array([8.0 + (k * 5 % 11) for k in range(n)]), unit="K")
    dg["velocity"] = osy.Vector(p[:, 1] * 2, -p[:, 0] * 2, p[:, 2] * 0 + 0.5, unit="cm/s")
    # marker radii in the unit of the positions, undefined (NaN) or unbounded (inf) for some rows
    rad = dxs * 0.25
    rad[1], rad[4], rad[n - 1] = np.nan, np.inf, np.nan
    dg["radius"] = osy.Array(rad, unit="cm")
    return dg


# --------------------------------------------------------------------------------------------
# tokens <-> values
# --------------------------------------------------------------------------------------------
class World:
    pass


def decode_field(world, field, tok):
    if tok is None:
        return None
    if field in ("mode", "operation"):
        return tok
    if field == "norm":
        return world.normobjs[int(tok[4:])] if tok.startswith("obj:") else tok
    if field in ("vmin", "vmax"):
        return float(frac(tok))
    if field == "bins":
        return world.edges[int(tok[6:])] if tok.startswith("edges:") else int(tok)
    if field == "weights":
        return world.dg[tok]
    raise ValueError(field)


def decode_kw(world, key, tok):
    if tok.startswith("arr:"):
        return world.dg[tok[4:]]
    if key in FLOAT_KEYS:
        return float(frac(tok))
    if key in INT_KEYS:
        return int(tok)
    if key in BOOL_KEYS:
        return tok == "True"
    return tok


def encode_value(world, v):
    """token of a value osyris shows (a Layer field, a kwargs / params entry)"""
    if v is None:
        return None
    if isinstance(v, bool):
        return "True" if v else "False"
    if isinstance(v, str):
        return v
    if isinstance(v, (int, np.integer)):
        return str(int(v))
    if isinstance(v, (float, np.floating)):
        return fstr(v)
    for k, o in enumerate(world.normobjs):
        if v is o:
            return f"obj:{k}"
    for k, o in enumerate(world.edges):
        if v is o:
            return f"edges:{k}"
    for key in world.dg.keys():
        m = world.dg[key]
        if v is m:
            return key
        if isinstance(v, np.ndarray) and hasattr(m, "_array") and v is m._array:
            return key
    try:
        from matplotlib.colors import Normalize

        if isinstance(v, Normalize):
            return "new:" + type(v).__name__
    except Exception:  # noqa: BLE001
        pass
    return "other:" + type(v).__name__


def opts_kwargs(world, opts):
    """the keyword arguments a token-level option record stands for (insertion order: fields, then kwargs)"""
    kw = {}
    for f in FIELDS:
        if opts.get(f) is not None:
            kw[f] = decode_field(world, f, opts[f])
    for k, t in opts.get("kwargs") or []:
        kw[k] = decode_kw(world, k, t)
    return kw


def build_world(osy, case):
    from matplotlib.colors import LogNorm, Normalize

    w = World()
    w.osy = osy
    w.dg = build_mesh(osy)
    w.normobjs = []
    for n in case.get("normobjs") or []:
        cls = {"Normalize": Normalize, "LogNorm": LogNorm}[n["cls"]]
        w.normobjs.append(cls(vmin=None if n.get("vmin") is None else float(frac(n["vmin"])),
                              vmax=None if n.get("vmax") is None else float(frac(n["vmax"]))))
    # bin edges as numpy arrays: histogram1d's `to_bin_centers` does arithmetic on them (a plain list raises)
    w.edges = [np.array([float(frac(t)) for t in e]) for e in case.get("edges") or []]
    w.layers = [w.dg.layer(l["key"], **opts_kwargs(w, l.get("opts") or {})) for l in case.get("layers") or []]
    w.optdicts = [opts_kwargs(w, o) for o in case.get("optdicts") or []]
    res = case.get("res")
    w.res = dict((k, int(v)) for k, v in res) if res is not None else None
    u = osy.units("cm")
    w.win = {k: float(frac(t)) * u for k, t in (case.get("win") or {}).items()}
    org = case.get("origin")
    w.origin = osy.Vector(*[float(frac(t)) for t in org], unit="cm") if org is not None else None
    w.limits = {k: (float(frac(t["v"])) * osy.units(t["u"]) if isinstance(t, dict) else float(frac(t)))
                for k, t in (case.get("limits") or {}).items()}
    return w


# --------------------------------------------------------------------------------------------
# deep snapshots
# --------------------------------------------------------------------------------------------
def _digest(a):
    a = np.ascontiguousarray(a)
    return hashlib.sha1(a.tobytes()).hexdigest()[:16]


def snap(obj, ids, raw):
    """canonical deep snapshot; `ids` numbers objects in traversal order (aliasing structure),
    `raw` collects the actual identities (compared between snapshots taken in one process)"""
    if obj is None or isinstance(obj, (bool, int, str)):
        return {"k": "v", "r": repr(obj)}
    if isinstance(obj, (float, np.floating)):
        return {"k": "v", "r": repr(float(obj))}
    if isinstance(obj, np.integer):
        return {"k": "v", "r": repr(int(obj))}
    oid = id(obj)
    if oid in ids:
        return {"k": "ref", "n": ids[oid]}
    n = ids[oid] = len(ids)
    raw.append(oid)
    if isinstance(obj, np.ndarray):
        small = repr(obj.ravel()[:4].tolist()) if obj.dtype.kind in "fiub" else None      # repr: NaN must compare equal to itself
        return {"k": "nd", "n": n, "dtype": str(obj.dtype), "shape": list(obj.shape), "sha": _digest(obj), "first": small,
                "writeable": bool(obj.flags.writeable)}
    if isinstance(obj, dict):
        return {"k": "dict", "n": n, "items": [[snap(k, ids, raw), snap(v, ids, raw)] for k, v in obj.items()]}
    if isinstance(obj, (list, tuple)):
        return {"k": type(obj).__name__, "n": n, "items": [snap(v, ids, raw) for v in obj]}
    tname = type(obj).__name__
    mod = type(obj).__module__ or ""
    if mod.startswith("pint"):
        if hasattr(obj, "magnitude") and hasattr(obj, "units"):
            return {"k": "Quantity", "n": n, "magnitude": snap(obj.magnitude, ids, raw), "units": str(obj.units)}
        return {"k": "Unit", "n": n, "units": str(obj)}
    if mod.startswith("matplotlib.colors"):
        return {"k": "Norm", "n": n, "cls": tname, "vmin": repr(getattr(obj, "vmin", None)), "vmax": repr(getattr(obj, "vmax", None)),
                "clip": repr(getattr(obj, "clip", None))}
    if mod.startswith("osyris"):
        return {"k": "obj", "n": n, "type": tname, "attrs": [[k, snap(v, ids, raw)] for k, v in vars(obj).items()]}
    return {"k": "opaque", "n": n, "type": mod + "." + tname}


def world_roots(w):
    return {"datagroup": w.dg, "layers": w.layers, "option_dicts": w.optdicts, "resolution": w.res,
            "window": w.win, "origin": w.origin, "limits": w.limits, "norm_objects": w.normobjs, "bin_edges": w.edges}


def snapshot(w):
    ids, raw = {}, []
    tree = {k: snap(v, ids, raw) for k, v in world_roots(w).items()}
    return {"tree": tree, "raw": raw}


def _show(x):
    if isinstance(x, dict):
        if x.get("k") == "v":
            return x["r"]
        if x.get("k") == "dict":
            return "{" + ", ".join(f"{_show(k)}: {_show(v)}" for k, v in x["items"]) + "}"
        if x.get("k") in ("list", "tuple"):
            return "[" + ", ".join(_show(v) for v in x["items"]) + "]"
        if x.get("k") == "nd":
            return f"ndarray{x['shape']} {x['first']}.. sha {x['sha']}"
        if x.get("k") == "obj":
            return f"<{x['type']}>"
        return json_like(x)
    return repr(x)


def json_like(x):
    return "{" + ", ".join(f"{k}={v!r}" for k, v in x.items() if k != "n") + "}"


def _diff(a, b, path, out):
    if len(out) >= 6:
        return
    if a.get("k") != b.get("k"):
        out.append((path, _show(a), _show(b)))
        return
    kind = a["k"]
    if kind == "dict":
        ka = [_show(kv[0]) for kv in a["items"]]
        kb = [_show(kv[0]) for kv in b["items"]]
        if ka != kb:
            out.append((path + " keys", _show(a), _show(b)))
            return
        for (k, va), (_, vb) in zip(a["items"], b["items"]):
            _diff(va, vb, f"{path}[{_show(k)}]", out)
        return
    if kind in ("list", "tuple"):
        if len(a["items"]) != len(b["items"]):
            out.append((path + " length", _show(a), _show(b)))
            return
        for i, (x, y) in enumerate(zip(a["items"], b["items"])):
            _diff(x, y, f"{path}[{i}]", out)
        return
    if kind == "obj":
        na = [kv[0] for kv in a["attrs"]]
        nb = [kv[0] for kv in b["attrs"]]
        if a["type"] != b["type"] or na != nb:
            out.append((path + " attributes", f"{a['type']}{na}", f"{b['type']}{nb}"))
            return
        for (k, va), (_, vb) in zip(a["attrs"], b["attrs"]):
            _diff(va, vb, f"{path}.{k}", out)
        return
    if kind == "Quantity":
        if a["units"] != b["units"]:
            out.append((path + ".units", a["units"], b["units"]))
        _diff(a["magnitude"], b["magnitude"], path + ".magnitude", out)
        return
    if kind == "ref":
        return          # aliasing is compared through the identity lists (`raw`), numbering shifts with new objects
    if {k: v for k, v in a.items() if k != "n"} != {k: v for k, v in b.items() if k != "n"}:
        out.append((path, _show(a), _show(b)))


def snapshot_diff(before, after):
    """[(root, path, before, after)] — empty when nothing the caller owns changed"""
    out = []
    for root in before["tree"]:
        d = []
        _diff(before["tree"][root], after["tree"][root], root, d)
        out += [(root, p, x, y) for p, x, y in d]
    if not out and before["raw"] != after["raw"]:
        out.append(("identity", "object identity of a member changed", None, None))
    return out


# --------------------------------------------------------------------------------------------
# token-level view of the objects the Lean heap models
# --------------------------------------------------------------------------------------------
def layer_tokens(w, layer):
    f = {k: encode_value(w, getattr(layer, k)) for k in FIELDS}
    return {"fields": f, "kwargs": [[k, encode_value(w, v)] for k, v in layer.kwargs.items()]}


def store_tokens(w):
    return {"layers": [layer_tokens(w, l) for l in w.layers],
            "optdicts": [[[k, encode_value(w, v)] for k, v in d.items()] for d in w.optdicts],
            "res": None if w.res is None else [[k, int(v)] for k, v in w.res.items()]}


# --------------------------------------------------------------------------------------------
# calling the entry points
# --------------------------------------------------------------------------------------------
def err_class(e):
    if isinstance(e, KeyError):
        return "KeyErr"
    if isinstance(e, TypeError):
        return "TypeErr"
    if isinstance(e, RuntimeError):
        return "RuntimeErr"
    if isinstance(e, ValueError):
        return "ValueErr"
    return "Other:" + type(e).__name__


class Probe:
    """optional internal observation points: the pixel grid handed to `evaluate_on_grid` (depth
    resolution of a thick map) and the arguments handed to matplotlib's `Axes.hist`"""

    def __init__(self):
        self.nz = None
        self.hist = []
        self.available = {"evaluate_on_grid": False, "Axes.hist": False}

    @contextlib.contextmanager
    def installed(self):
        import importlib

        import matplotlib.axes as maxes

        pmap = importlib.import_module("osyris.plot.map")     # `osyris.plot.map` the attribute is the function

        orig_eval = getattr(pmap, "evaluate_on_grid", None)
        orig_hist = maxes.Axes.hist
        probe = self

        if orig_eval is not None:
            self.available["evaluate_on_grid"] = True

            def wrapped_eval(*a, **k):
                g = k.get("grid_positions_in_original_basis")
                if g is not None and getattr(g, "ndim", 0) == 4:
                    probe.nz = int(g.shape[0])
                return orig_eval(*a, **k)

            pmap.evaluate_on_grid = wrapped_eval

        def wrapped_hist(self_ax, x, *a, **k):
            probe.hist.append({"n": len(x), "bins": k.get("bins"), "weights": k.get("weights"),
                               "kwargs": {kk: vv for kk, vv in k.items() if kk not in ("bins", "weights")}})
            return orig_hist(self_ax, x, *a, **k)

        maxes.Axes.hist = wrapped_hist
        self.available["Axes.hist"] = True
        try:
            yield self
        finally:
            maxes.Axes.hist = orig_hist
            if orig_eval is not None:
                pmap.evaluate_on_grid = orig_eval


def _arr(x):
    if x is None:
        return None
    if isinstance(x, np.ma.MaskedArray):
        return {"data": np.ma.getdata(x).copy(), "mask": np.ma.getmaskarray(x).copy()}
    if hasattr(x, "values") and hasattr(x, "unit"):
        x = x.values
    return {"data": np.array(x, copy=True), "mask": None}


def arr_equal(a, b):
    if a is None or b is None:
        return a is None and b is None
    if a["data"].shape != b["data"].shape:
        return False
    ma = a["mask"] if a["mask"] is not None else np.zeros(a["data"].shape, bool)
    mb = b["mask"] if b["mask"] is not None else np.zeros(b["data"].shape, bool)
    if not np.array_equal(ma, mb):
        return False
    da = np.where(ma, 0, a["data"]) if a["data"].dtype.kind == "f" else a["data"]
    db = np.where(mb, 0, b["data"]) if b["data"].dtype.kind == "f" else b["data"]
    return np.array_equal(da, db, equal_nan=a["data"].dtype.kind == "f")


def norm_view(w, n):
    if n is None:
        return None
    tok = encode_value(w, n)
    if tok.startswith("obj:"):
        return {"obj": tok}
    return {"cls": type(n).__name__, "vmin": None if n.vmin is None else fstr(n.vmin),
            "vmax": None if n.vmax is None else fstr(n.vmax)}


def params_tokens(w, params):
    return [[k, encode_value(w, v)] for k, v in params.items()]


def select(w, name):
    """an Array / Vector argument by name: a member, or a component `position.x`"""
    if "." in name:
        key, comp = name.split(".")
        return getattr(w.dg[key], comp)
    return w.dg[name]


def call_kwargs(w, call):
    kw = {}
    if call.get("opts") is not None:
        kw.update(w.optdicts[call["opts"]])          # what `**options` does
    return kw


def layer_args(w, call):
    """Layer objects of the world, or bare Arrays (`raw:key`)"""
    return [w.layers[i] if isinstance(i, int) else w.dg[i[4:]] for i in call.get("layers") or []]


def resolution_arg(w, call):
    r = call.get("res")
    if r == "shared":
        return w.res
    return r


def run_call(w, call, probe=None):
    """one plotting call on the world's objects -> canonical result (arrays kept as numpy)"""
    import matplotlib.pyplot as plt

    osy = w.osy
    fn = call["fn"]
    out = {"fn": fn, "err": None, "layers": [], "nx": None, "ny": None, "nz": None, "x": None, "y": None}
    if probe is not None:
        probe.nz = None
        probe.hist = []
    kw = call_kwargs(w, call)
    try:
        with contextlib.redirect_stdout(io.StringIO()), np.errstate(all="ignore"):
            if fn == "map":
                args = dict(kw)
                for k in ("dx", "dy", "dz"):
                    if call.get(k):
                        args[k] = w.win[call[k]]
                if call.get("origin"):
                    args["origin"] = w.origin
                if call.get("res") is not None:
                    args["resolution"] = resolution_arg(w, call)
                p = osy.map(*layer_args(w, call), direction=call.get("direction", "z"),
                            plot=bool(call.get("plot")), **args)
            elif fn == "histogram2d":
                args = dict(kw)
                if call.get("res") is not None:
                    args["resolution"] = resolution_arg(w, call)
                for k in call.get("limits") or []:
                    args[k] = w.limits[k]
                for k in ("logx", "logy"):
                    if call.get(k):
                        args[k] = True
                p = osy.histogram2d(select(w, call["x"]), select(w, call["y"]), *layer_args(w, call),
                                    plot=bool(call.get("plot")), **args)
            elif fn == "histogram1d":
                args = dict(kw)
                for k in ("logx", "logy"):
                    if call.get(k):
                        args[k] = True
                p = osy.histogram1d(*layer_args(w, call), **args)
            elif fn == "scatter":
                args = dict(kw)
                if call.get("color"):
                    args["color"] = select(w, call["color"][4:]) if call["color"].startswith("arr:") else call["color"]
                if call.get("size"):
                    args["size"] = select(w, call["size"][4:]) if call["size"].startswith("arr:") else float(frac(call["size"]))
                for k in call.get("limits") or []:
                    args[k] = w.limits[k]
                p = osy.scatter(select(w, call["x"]), select(w, call["y"]), **args)
            elif fn == "plot":
                args = dict(kw)
                for k in call.get("limits") or []:
                    args[k] = w.limits[k]
                p = osy.plot(select(w, call["x"]), *[select(w, y) for y in call.get("ys") or []], **args)
            else:
                raise ValueError("unknown entry point " + fn)
    except Exception as e:  # noqa: BLE001
        out["err"] = err_class(e)
        out["msg"] = str(e)[:160]
        plt.close("all")
        return out
    try:
        out["x"] = _arr(p.x)
        out["y"] = _arr(p.y)
        if fn in ("map", "histogram2d"):
            out["nx"] = None if p.x is None else int(len(p.x))
            out["ny"] = None if p.y is None else int(len(p.y))
            if fn == "map" and probe is not None and call.get("dz"):
                out["nz"] = probe.nz
            for l in p.layers:
                params = dict(l["params"])
                n = params.get("norm")
                out["layers"].append({"mode": l["mode"], "norm": norm_view(w, n),
                                      "params": params_tokens(w, params),
                                      "unit": str(l["unit"]), "name": l["name"], "data": _arr(l["data"])})
        elif fn == "histogram1d":
            hs = list(probe.hist) if probe is not None else []
            for k, h in enumerate(hs):
                bins = h["bins"]
                btok = encode_value(w, bins)
                if btok.startswith("other:"):
                    btok = str(len(bins) - 1)
                wt = h["weights"]
                out["layers"].append({"bins": btok, "weights": None if wt is None else encode_value(w, wt),
                                      "params": params_tokens(w, h["kwargs"])})
        elif fn == "scatter":
            l = p.layers
            out["layers"].append({"mode": l["mode"], "params": params_tokens(w, l["params"]),
                                  "norm": norm_view(w, l["params"].get("norm"))})
        elif fn == "plot":
            for l in p.layers:
                out["layers"].append({"params": params_tokens(w, l["params"]), "unit": str(l["unit"]), "name": l["name"],
                                      "data": _arr(l["y"]), "xdata": _arr(l["x"])})
    finally:
        plt.close("all")
    return out


def results_equal(a, b):
    """same data? (what the property calls 'returns the same data')"""
    if a["err"] != b["err"]:
        return False, f"error {a['err']} vs {b['err']}"
    for k in ("nx", "ny"):
        if a[k] != b[k]:
            return False, f"{k} {a[k]} vs {b[k]}"
    for k in ("x", "y"):
        if not arr_equal(a[k], b[k]):
            return False, f"Plot.{k} differs"
    if len(a["layers"]) != len(b["layers"]):
        return False, f"{len(a['layers'])} vs {len(b['layers'])} layers"
    for i, (la, lb) in enumerate(zip(a["layers"], b["layers"])):
        for k in la:
            if k in ("data", "xdata"):
                if not arr_equal(la[k], lb[k]):
                    return False, f"layers[{i}].{k} differs"
            elif la[k] != lb.get(k):
                return False, f"layers[{i}].{k}: {la[k]} vs {lb.get(k)}"
    return True, ""


def summarise(res):
    """JSON-serialisable digest of a result (for samples / replay files)"""
    def d(a):
        if a is None:
            return None
        return {"shape": list(a["data"].shape), "sha": _digest(a["data"]),
                "first": [repr(float(v)) for v in np.asarray(a["data"], dtype=float).ravel()[:4]] if a["data"].dtype.kind in "fiu" else None}

    out = {k: v for k, v in res.items() if k not in ("x", "y", "layers")}
    out["x"] = d(res.get("x"))
    out["y"] = d(res.get("y"))
    out["layers"] = [{k: (d(v) if k in ("data", "xdata") else v) for k, v in l.items()} for l in res["layers"]]
    return out
