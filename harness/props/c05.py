"""C05 2-D histogram bins every point exactly once, independent of thread schedule.

Real implementation: `osyris.plot.utils.hist2d` (numba kernel) and `osyris.histogram2d(..., plot=False)`.
Lean side: OsyrisModel/Hist.lean through the "hist" engine (Driver/Geom.lean).
  mode "model": index rule as the current source codes it (detected from plot/utils.py: `int(` = trunc,
                `floor(` = floor) -> tie (b), impl vs model-as-coded
  mode "spec" : half-open bins on the coordinate -> impl vs Spec (violations)
Lanes: exact (dyadic coordinates on a dyadic grid: bit-identical results required) and tolerant
(arbitrary doubles, automatic limits, log axes: 1e-9, near-ties skipped and counted).
Data lanes run with one numba thread (deterministic); the thread lane runs {1,2,4,16} threads."""
import contextlib
import io
import json
import math
import os
import re
from fractions import Fraction

import numpy as np

from .. import env
from ..framework import Outcome, case_hash
from .c05_geom import driver_kind, run_geom  # noqa: F401  (run_geom re-exported)

TRUSTED = [
    "numba's code generation and thread runtime are modelled: a thread's `img[i] += v` is an atomic load followed by an atomic store (Hist.Ev); C05_sched quantifies over all interleavings of these events, the thread lane only samples the real scheduler",
    "numpy: log10 on log axes (the harness applies the same np.log10 and hands the logged doubles to the model), linspace/logspace for the bin centres, masked arrays",
    "the driver executes accumArr/updsZ (Array loop, cells computed once); accumArr_eq and updsOf_eq_updsZ prove them equal to the modelled fold",
]
ASSUMPTIONS = [
    "resolution >= 1 and xmin < xmax, ymin < ymax after the limit logic (Grid.WF)",
    "length-0 input (or no finite value) with an automatic limit has no defined range: the code raises, outside the claim",
    "with no value layer the call-level operation is the default 'sum' (a 'mean' of the counting layer is 1 by definition of the code)",
    "tolerant lane: index decisions asserted only when every finite point is further than 1e-9 bin widths from a bin edge",
]

# committed snapshot of what plot/utils.py:hist2d looks like (used only when the pattern is not found)
SNAPSHOT = {"rule": "floor", "disc": "serial"}
NEAR_TIE = Fraction(1, 10 ** 9)
UTILS = os.path.join(env.REPO, "src", "osyris", "plot", "utils.py")


# --------------------------------------------------------------------------------------------
# extraction: index rule and accumulation discipline from the source text
# --------------------------------------------------------------------------------------------
def detect_source():
    info = {"file": UTILS}
    try:
        txt = open(UTILS).read()
        m = re.search(r"((?:^@[^\n]*\n)*)^def hist2d\(.*?(?=^[^\s#@]|^@|\Z)", txt, flags=re.S | re.M)
        if not m:
            raise ValueError("def hist2d not found")
        deco = m.group(1)
        body = "\n".join(l.split("#")[0] for l in m.group(0)[len(deco):].splitlines())
        if re.search(r"\bfloor\s*\(", body) or "//" in body:
            rule = "floor"
        elif re.search(r"\bint\s*\(", body):
            rule = "trunc"
        else:
            raise ValueError("no int()/floor() in hist2d")
        parallel = bool(re.search(r"parallel\s*=\s*True", deco))
        pr = bool(re.search(r"\bprange\s*\(", body))
        if not (parallel and pr):
            disc = "serial"
        elif re.search(r"atomic", body):
            disc = "atomicAdd"
        elif re.search(r"get_thread_id|get_num_threads|nthreads|num_threads|n_threads", body):
            disc = "privateMerge"
        else:
            disc = "sharedRMW"
        info.update(rule=rule, disc=disc, source="detected", decorator=deco.strip(), prange=pr)
    except Exception as e:  # noqa: BLE001
        info.update(rule=SNAPSHOT["rule"], disc=SNAPSHOT["disc"], source="fallback", why=str(e))
    return info


# --------------------------------------------------------------------------------------------
# case <-> numpy / Lean
# --------------------------------------------------------------------------------------------
SPECIAL = {"nan": float("nan"), "inf": float("inf"), "-inf": float("-inf")}


def coords_np(case, key):
    """numpy float64 coordinates of a case (`xs` / `ys`)."""
    den = case.get("den")
    raw = case[key]
    a = np.array(raw, dtype=np.float64) if len(raw) else np.zeros(0, dtype=np.float64)   # "nan" / "inf" / "-inf" parse
    return a / den if den else a


def values_np(case):
    n = len(case["xs"])
    vden = case.get("vden")
    vals = case.get("values", [])
    if not vals:
        return np.zeros((0, n), dtype=np.float64)
    a = np.array(vals, dtype=np.float64).reshape(len(vals), n)
    return a / vden if vden else a


def lim_float(case, v):
    if v is None:
        return None
    return v / case["den"] if case.get("den") else float(v)


def res_xy(case):
    """(nx, ny) of a histogram2d case: `resolution` is an int or, as documented, {'x': nx, 'y': ny}"""
    if case.get("res_xy"):
        return int(case["res_xy"][0]), int(case["res_xy"][1])
    return int(case["res"]), int(case["res"])


def frac_str(f):
    f = Fraction(f)
    return str(f.numerator) if f.denominator == 1 else f"{f.numerator}/{f.denominator}"


def float_to_lean(v):
    v = float(v)
    if math.isnan(v):
        return "nan"
    if math.isinf(v):
        return "inf" if v > 0 else "-inf"
    return frac_str(Fraction(v))


def lean_line(case, mode, rule, margin=False, cells=False):
    """The driver line of a case. On log axes the coordinates are log10-ed here with numpy,
    exactly as histogram2d does, and travel as the exact rationals of the resulting doubles."""
    line = {"engine": "hist", "level": case["level"], "mode": mode, "rule": rule, "margin": bool(margin)}
    if cells:
        line["cells"] = True
    n = len(case["xs"])
    exact_coords = bool(case.get("den")) and not (case.get("logx") or case.get("logy"))
    if exact_coords:
        line["xden"] = line["yden"] = case["den"]
        line["xs"], line["ys"] = case["xs"], case["ys"]
    else:
        for key, lg in (("xs", case.get("logx")), ("ys", case.get("logy"))):
            a = coords_np(case, key)
            if lg:
                with np.errstate(all="ignore"):
                    a = np.log10(a)
            line[key] = [float_to_lean(v) for v in a]
    vals = case.get("values", [])
    if case["level"] == "h2d":
        nx, ny = res_xy(case)
        ops = [o or case.get("operation") or "sum" for o in case.get("ops", [])]
        if not vals:
            vals, ops = [[1] * n], [case.get("operation") or "sum"]
            line["vden"] = 1
        elif case.get("vden"):
            line["vden"] = case["vden"]
        line["ops"] = ops
        for k in ("xmin", "xmax", "ymin", "ymax"):
            v = lim_float(case, case["lim"].get(k))
            if v is not None and case.get("logx" if k[0] == "x" else "logy"):
                with np.errstate(all="ignore"):
                    v = float(np.log10(v))
            line[k] = None if v is None else float_to_lean(v)
    else:
        nx, ny = case["nx"], case["ny"]
        if case.get("vden"):
            line["vden"] = case["vden"]
        for k in ("xmin", "xmax", "ymin", "ymax"):
            line[k] = float_to_lean(lim_float(case, case[k]))
    if vals and not case.get("vden") and case.get("values"):
        line["values"] = [[float_to_lean(v) for v in l] for l in vals]
    else:
        line["values"] = vals
    line["nx"], line["ny"] = nx, ny
    return line


# --------------------------------------------------------------------------------------------
# the real implementation
# --------------------------------------------------------------------------------------------
@contextlib.contextmanager
def numba_threads(k):
    import numba

    old = numba.get_num_threads()
    numba.set_num_threads(max(1, min(k, numba.config.NUMBA_NUM_THREADS)))
    try:
        yield
    finally:
        numba.set_num_threads(old)


def run_kernel(osy, case, threads=1):
    from osyris.plot.utils import hist2d

    x, y, v = coords_np(case, "xs"), coords_np(case, "ys"), values_np(case)
    with numba_threads(threads):
        out, counts = hist2d(x, y, v, lim_float(case, case["xmin"]), lim_float(case, case["xmax"]), case["nx"],
                             lim_float(case, case["ymin"]), lim_float(case, case["ymax"]), case["ny"])
    return {"counts": [int(c) for c in counts.ravel()], "sums": [[float(t) for t in l.ravel()] for l in out]}


def run_h2d(osy, case, threads=1, capture=None):
    """`capture` (a dict) receives the arguments histogram2d hands to the kernel (observed by
    wrapping the module attribute `osyris.plot.histogram2d.hist2d`; no source change)."""
    import importlib

    h2mod = importlib.import_module("osyris.plot.histogram2d")
    x, y, v = coords_np(case, "xs"), coords_np(case, "ys"), values_np(case)
    ux, uy = case.get("units", ["", ""])
    X = osy.Array(values=x, unit=ux, name="xq")
    Y = osy.Array(values=y, unit=uy, name="yq")
    layers, arrs = [], []
    for i, op in enumerate(case.get("ops", [])):
        vdt = {"f8": np.float64, "f4": np.float32, "i8": np.int64, "i4": np.int32, "i2": np.int16}[case.get("vdtype", "f8")]
        arr = osy.Array(values=v[i].astype(vdt), unit="", name=f"layer{i}")
        src = (case.get("share") or {}).get(str(i))
        if src is not None and src < len(arrs):
            arr = arrs[src]          # the very same Array object in two layers (mean of it as image, sum of it as contours)
        arrs.append(arr)
        layers.append(arr if op is None else osy.core.Layer(arr, operation=op))
    kw = {"resolution": case["res"], "plot": False, "logx": bool(case.get("logx")), "logy": bool(case.get("logy"))}
    if case.get("res_xy"):
        kw["resolution"] = {"x": case["res_xy"][0], "y": case["res_xy"][1]}
    if case.get("operation"):
        kw["operation"] = case["operation"]
    for k in ("xmin", "xmax", "ymin", "ymax"):
        val = lim_float(case, case["lim"].get(k))
        if val is not None:
            if case.get("quantity_limits"):
                val = val * osy.units(ux if k[0] == "x" else uy)
            kw[k] = val
    orig = getattr(h2mod, "hist2d", None)
    if capture is not None and orig is not None:
        def spy(*a, **k):
            capture.update(k)
            capture["args"] = a
            return orig(*a, **k)
        h2mod.hist2d = spy
    try:
        with numba_threads(threads), contextlib.redirect_stdout(io.StringIO()), np.errstate(all="ignore"):
            p = osy.histogram2d(X, Y, *layers, **kw)
    except Exception as e:  # noqa: BLE001
        return {"raised": type(e).__name__, "msg": str(e)[:200]}
    finally:
        if capture is not None and orig is not None:
            h2mod.hist2d = orig
    res = {"x": [float(t) for t in np.asarray(p.x)], "y": [float(t) for t in np.asarray(p.y)], "layers": []}
    for lay in p.layers:
        d = lay["data"]
        mask = np.ma.getmaskarray(d).ravel()
        data = np.ma.getdata(d).ravel()
        res["layers"].append([None if m else float(t) for m, t in zip(mask, data)])
    return res


# --------------------------------------------------------------------------------------------
# comparison
# --------------------------------------------------------------------------------------------
def close(a, b, scale=0.0):
    return abs(a - b) <= 1e-9 * max(abs(a), abs(b)) + 1e-9 * scale


def cmp_values(impl, model, exact, scale, what):
    """impl: floats / None (masked); model: rational strings / None. First difference or None."""
    if len(impl) != len(model):
        return f"{what}: {len(impl)} bins, expected {len(model)}"
    for i, (a, m) in enumerate(zip(impl, model)):
        if (a is None) != (m is None):
            return f"{what}[bin {i}]: {'masked' if a is None else a} vs expected {'masked' if m is None else m}"
        if a is None:
            continue
        mf = Fraction(m)
        if exact:
            if math.isnan(a) or math.isinf(a) or (Fraction(a) != mf and a != float(mf)):
                return f"{what}[bin {i}]: {a} vs expected {m}"
        elif math.isnan(a) or not close(a, float(mf), scale):
            return f"{what}[bin {i}]: {a} vs expected {float(mf)}"
    return None


def cmp_kernel(case, impl, res):
    exact = case["lane"] == "exact"
    if impl["counts"] != [int(c) for c in res["counts"]]:
        bad = [(i, a, int(b)) for i, (a, b) in enumerate(zip(impl["counts"], res["counts"])) if a != int(b)][:4]
        return f"counts differ at (bin, got, expected) {bad}"
    v = values_np(case)
    for l, (a, m) in enumerate(zip(impl["sums"], res["sums"])):
        d = cmp_values(a, m, exact, float(np.abs(v[l]).sum()) if len(v) else 0.0, f"out[{l}]")
        if d:
            return d
    return None


def centres(lo, hi, n, log):
    if log:
        e = np.logspace(float(lo), float(hi), n + 1)
    else:
        e = np.linspace(float(lo), float(hi), n + 1)
    return 0.5 * (e[1:] + e[:-1])


def cmp_h2d(case, impl, res):
    """impl = run_h2d output, res = driver result (one of model/spec, plus the limits)."""
    if "raised" in impl or "err" in res:
        if ("raised" in impl) != ("err" in res):
            return f"impl {'raised ' + impl['raised'] if 'raised' in impl else 'returned'}, expected {res.get('err', 'a result')}"
        return None
    exact = case["lane"] == "exact"
    for ax, lg, n in zip("xy", (case.get("logx"), case.get("logy")), res_xy(case)):
        want = centres(Fraction(res[ax + "min"]), Fraction(res[ax + "max"]), n, lg)
        got = impl[ax]
        span = float(np.max(np.abs(want))) if len(want) else 1.0
        if len(got) != n or any(abs(a - b) > 1e-9 * max(span, abs(b)) for a, b in zip(got, want)):
            return f"bin centres {ax}: {got[:3]}.. vs expected {[float(t) for t in want[:3]]}.."
    v = values_np(case)
    if len(impl["layers"]) != len(res["layers"]):
        return f"{len(impl['layers'])} layers, expected {len(res['layers'])}"
    for l, (a, m) in enumerate(zip(impl["layers"], res["layers"])):
        scale = float(np.abs(v[l]).sum()) if len(v) else float(len(case["xs"]))
        d = cmp_values(a, m, exact, scale, f"layer[{l}]")
        if d:
            return d
    return None


# --------------------------------------------------------------------------------------------
# generators
# --------------------------------------------------------------------------------------------
RES = [1, 2, 3, 4, 5, 7, 8, 16, 31, 64]


def gen_axis_exact(r, n, npts, style):
    """One axis on a dyadic lattice. Returns (lo, hi, coords) in lattice units.
    Bin width = 4*d units so that quarter-bin positions exist; every edge is a lattice point."""
    d = r.choice([1, 1, 2, 3, 5, 8, 25])
    w = 4 * d
    lo = r.randint(-3000, 3000)
    hi = lo + n * w
    pts = []
    for _ in range(npts):
        s = style if style != "mixed" else r.choice(["in", "in", "in", "edge", "below1", "above1", "far", "nonfinite"])
        if s == "in":
            pts.append(r.randint(lo, hi - 1))
        elif s == "edge":
            pts.append(lo + w * r.randint(0, n))
        elif s == "below1":
            pts.append(r.randint(lo - w + 1, lo - 1))
        elif s == "above1":
            pts.append(r.randint(hi, hi + w))
        elif s == "far":
            pts.append(r.choice([lo - w * r.randint(1, 50), hi + w * r.randint(1, 50), lo - w, lo - w - 1]))
        elif s == "onebin":
            k = getattr(gen_axis_exact, "_k", 0) % n
            pts.append(lo + w * k + r.randint(0, w - 1))
        else:
            pts.append(r.choice(["nan", "inf", "-inf"]))
    return lo, hi, pts


def gen_kernel_exact(r, npts, style=None):
    e = r.randint(0, 8)
    nx, ny = r.choice(RES), r.choice(RES)
    style = style or r.choice(["mixed", "mixed", "mixed", "in", "edge", "below1", "above1", "onebin"])
    gen_axis_exact._k = r.randint(0, 63)
    xlo, xhi, xs = gen_axis_exact(r, nx, npts, style)
    # the other axis is mostly inside so that the x decision is what counts (and vice versa)
    ystyle = style if style in ("mixed", "onebin") else r.choice(["in", "in", style])
    ylo, yhi, ys = gen_axis_exact(r, ny, npts, ystyle)
    if r.random() < 0.5:
        xs, ys, xlo, xhi, ylo, yhi, nx, ny = ys, xs, ylo, yhi, xlo, xhi, ny, nx
    nl = r.choice([0, 1, 1, 2, 3])
    return {"level": "kernel", "lane": "exact", "den": 2 ** e, "nx": nx, "ny": ny, "xmin": xlo, "xmax": xhi,
            "ymin": ylo, "ymax": yhi, "xs": xs, "ys": ys, "vden": 16,
            "values": [[r.randint(-64, 640) for _ in range(npts)] for _ in range(nl)], "tags": ["kernel", "exact", style]}


def every_edge_case(r, n):
    """points exactly on every bin edge of both axes, and a quarter bin on either side of each"""
    e = r.randint(0, 6)
    d = r.choice([1, 3])
    w = 4 * d
    xlo, ylo = r.randint(-500, 500), r.randint(-500, 500)
    xs, ys = [], []
    for k in range(-1, n + 2):
        for off in (-d, 0, d):
            xs.append(xlo + k * w + off)
            ys.append(ylo + w // 2)            # y safely inside bin 0
            ys.append(ylo + k * w + off)
            xs.append(xlo + w // 2)
    return {"level": "kernel", "lane": "exact", "den": 2 ** e, "nx": n, "ny": n, "xmin": xlo, "xmax": xlo + n * w,
            "ymin": ylo, "ymax": ylo + n * w, "xs": xs, "ys": ys, "vden": 16,
            "values": [[r.randint(1, 99) for _ in xs]], "tags": ["kernel", "exact", "every_edge"]}


def gen_axis_tol(r, n, npts, style):
    lo = r.uniform(-10, 10) * 10 ** r.randint(-2, 2)
    span = 10 ** r.uniform(-2, 3)
    hi = lo + span
    dx = (hi - lo) / n
    pts = []
    for _ in range(npts):
        s = style if style != "mixed" else r.choice(["in", "in", "in", "edge", "below1", "above1", "far", "nonfinite"])
        if s == "in":
            pts.append(r.uniform(lo, hi))
        elif s == "edge":
            pts.append(lo + r.randint(0, n) * dx)
        elif s == "below1":
            pts.append(lo - r.uniform(0.05, 0.95) * dx)
        elif s == "above1":
            pts.append(hi + r.uniform(0.05, 0.95) * dx)
        elif s == "far":
            pts.append(r.choice([lo - span * r.uniform(1, 9), hi + span * r.uniform(1, 9)]))
        elif s == "onebin":
            pts.append(lo + (0.5 + 0.3 * r.random()) * dx)
        else:
            pts.append(r.choice(["nan", "inf", "-inf"]))
    return lo, hi, pts


def gen_kernel_tol(r, npts, style=None):
    nx, ny = r.choice(RES), r.choice(RES)
    style = style or r.choice(["mixed", "in", "below1", "above1", "onebin", "edge"])
    xlo, xhi, xs = gen_axis_tol(r, nx, npts, style)
    ylo, yhi, ys = gen_axis_tol(r, ny, npts, style if style in ("mixed", "onebin") else "in")
    if r.random() < 0.5:
        xs, ys, xlo, xhi, ylo, yhi, nx, ny = ys, xs, ylo, yhi, xlo, xhi, ny, nx
    nl = r.choice([0, 1, 2, 3])
    return {"level": "kernel", "lane": "tol", "nx": nx, "ny": ny, "xmin": xlo, "xmax": xhi, "ymin": ylo, "ymax": yhi,
            "xs": xs, "ys": ys, "values": [[r.uniform(-1, 10) for _ in range(npts)] for _ in range(nl)],
            "tags": ["kernel", "tol", style]}


def gen_h2d(r, npts, lane):
    c = gen_h2d_(r, npts, lane)
    nl = len(c.get("ops") or [])
    if nl >= 2 and r.random() < 0.6:
        # two layers built on one and the same Array object, with their own operations
        i = r.randrange(1, nl)
        j = r.randrange(0, i)
        c["values"][i] = list(c["values"][j])
        c["share"] = {str(i): j}
        c["ops"][j] = r.choice(["mean", "mean", "mean", "sum", None])
        c["ops"][i] = r.choice(["sum", "sum", "mean", None])
        c["tags"] = list(c.get("tags", [])) + ["shared_array"]
    return c


def gen_h2d_(r, npts, lane):
    """histogram2d call. exact lane: linear axes, four explicit dyadic limits."""
    res = r.choice(RES)
    nl = r.choice([0, 1, 2, 3])
    ops = [r.choice([None, "sum", "mean"]) for _ in range(nl)]
    operation = r.choice([None, "sum", "mean"]) if nl else None
    units = r.choice([["", ""], ["m", "s"], ["cm", "g"]])
    if lane == "exact":
        style = r.choice(["mixed", "mixed", "in", "below1", "edge", "above1", "onebin"])
        e = r.randint(0, 8)
        gen_axis_exact._k = r.randint(0, 63)
        res_pair = [r.choice(RES), r.choice(RES)] if r.random() < 0.12 else None     # resolution={'x': nx, 'y': ny}
        rx, ry = res_pair or (res, res)
        xlo, xhi, xs = gen_axis_exact(r, rx, npts, style)
        ylo, yhi, ys = gen_axis_exact(r, ry, npts, style if style in ("mixed", "onebin") else "in")
        if r.random() < 0.5 and not res_pair:
            xs, ys, xlo, xhi, ylo, yhi = ys, xs, ylo, yhi, xlo, xhi
        # dtype of the stored layer values (all layers of a call share it, otherwise numpy upcasts the stack): integer
        # variables (level, cpu, flags) and single-precision outputs are ordinary histogram inputs
        vdtype = r.choice(["f8", "f8", "f8", "f4", "i8", "i4", "i2"])
        integer = vdtype in ("i8", "i4", "i2")
        return {"level": "h2d", "lane": "exact", "den": 2 ** e, "res": res, "res_xy": res_pair, "xs": xs, "ys": ys,
                "vden": 1 if integer else 16, "vdtype": vdtype,
                "values": [[r.randint(-64, 640) for _ in range(npts)] for _ in range(nl)], "ops": ops, "operation": operation,
                "lim": {"xmin": xlo, "xmax": xhi, "ymin": ylo, "ymax": yhi}, "units": units,
                "quantity_limits": r.random() < 0.15, "tags": ["h2d", "exact", "explicit", style]}
    kind = r.choice(["auto", "auto", "mixed_limits", "explicit", "degenerate", "degenerate0", "log", "loglin", "loglin", "empty_explicit",
                     "empty_auto", "nofinite_auto"])
    logx = logy = False
    lim = {"xmin": None, "xmax": None, "ymin": None, "ymax": None}
    if kind in ("log", "loglin"):
        logx = True
        logy = kind == "log"
    def axis(log):
        if log:
            pts = [10 ** r.uniform(-3, 4) for _ in range(npts)]
            for i in range(len(pts)):
                u = r.random()
                if u < 0.04:
                    pts[i] = 0.0          # log10 -> -inf
                elif u < 0.08:
                    pts[i] = -pts[i]      # log10 -> nan
                elif u < 0.1:
                    pts[i] = r.choice(["nan", "inf"])
            return pts
        lo, hi, pts = gen_axis_tol(r, res, npts, r.choice(["in", "mixed"]))
        return pts
    xs, ys = axis(logx), axis(logy)
    if kind == "degenerate":
        c = r.choice([2.5, -7.0, 1e-3, 123456.0])
        xs = [c if not isinstance(v, str) else v for v in xs]
    if kind == "degenerate0":
        ys = [0.0 if not isinstance(v, str) else v for v in ys]
    if kind in ("empty_explicit", "empty_auto"):
        xs, ys, npts = [], [], 0
    if kind == "nofinite_auto":
        xs = [r.choice(["nan", "inf", "-inf"]) for _ in xs]
    fx = [v for v in xs if not isinstance(v, str) and (not logx or v > 0)]
    fy = [v for v in ys if not isinstance(v, str) and (not logy or v > 0)]
    def explicit(fin, which, log=False):
        if not fin:
            return {"min": 0.5, "max": 8.0}[which]
        lo, hi = min(fin), max(fin)
        t = r.uniform(0.1, 0.4)
        if lo == hi:          # a single value: limits on either side of it
            if log:           # a limit of a logarithmic axis must stay positive
                return lo / (1.0 + t) if which == "min" else hi * (1.0 + t)
            return lo - t * (abs(lo) + 1.0) if which == "min" else hi + t * (abs(hi) + 1.0)
        return lo + t * (hi - lo) if which == "min" else hi - t * (hi - lo)
    if kind in ("explicit", "empty_explicit"):
        lim = {"xmin": explicit(fx, "min", logx), "xmax": explicit(fx, "max", logx), "ymin": explicit(fy, "min", logy), "ymax": explicit(fy, "max", logy)}
    elif kind == "loglin" and r.random() < 0.6:
        # exactly one logarithmic axis with explicit limits on the *other* axis too: every limit must be read with its own axis' flag
        lim = {"xmin": explicit(fx, "min", logx), "xmax": explicit(fx, "max", logx), "ymin": explicit(fy, "min", logy), "ymax": explicit(fy, "max", logy)}
        if r.random() < 0.5:
            lim[r.choice(["xmin", "xmax", "ymin", "ymax"])] = None
    elif kind == "mixed_limits" or (kind in ("log", "loglin") and r.random() < 0.5):
        for k, fin in (("xmin", fx), ("xmax", fx), ("ymin", fy), ("ymax", fy)):
            if r.random() < 0.5:
                lim[k] = explicit(fin, k[1:], logx if k[0] == "x" else logy)
    return {"level": "h2d", "lane": "tol", "res": res, "logx": logx, "logy": logy, "xs": xs, "ys": ys,
            "values": [[r.uniform(-1, 10) for _ in range(npts)] for _ in range(nl)], "ops": ops, "operation": operation,
            "lim": lim, "units": units, "quantity_limits": False, "tags": ["h2d", "tol", kind]}


def build_cases(ctx):
    r = ctx.rng
    thorough = ctx.tier == "thorough"
    cases = []
    sizes = [0, 1, 2, 3, 7, 40, 300] + ([2000] if not thorough else [2000, 20000])
    reps = 5 if not thorough else 40
    for _ in range(reps):
        for n in sizes:
            cases.append(gen_kernel_exact(r, n))
            cases.append(gen_kernel_tol(r, n))
            cases.append(gen_h2d(r, n, "exact"))
            cases.append(gen_h2d(r, n, "tol"))
    for n in RES:
        cases.append(every_edge_case(r, n))
    # logarithmic axes with automatic limits over inputs that hold zeros and negative entries (they have no logarithm: they
    # fall in no bin and must not decide the range)
    for lx, ly in ((True, False), (False, True), (True, True)):
        xs = [0.0, 1.0, 10.0, 100.0, 1000.0, -5.0, 3.0, 30.0]
        ys = [2.0, 0.0, 8.0, -1.0, 64.0, 4.0, 16.0, 32.0]
        cases.append({"level": "h2d", "lane": "tol", "res": 4, "logx": lx, "logy": ly, "xs": xs, "ys": ys, "values": [], "ops": [],
                      "operation": None, "lim": {"xmin": None, "xmax": None, "ymin": None, "ymax": None}, "units": ["", ""],
                      "quantity_limits": False, "tags": ["h2d", "tol", "log_auto_nonpositive"]})
    # boundary stream at volume: one bin width outside either limit, both lanes
    for _ in range(6 if not thorough else 60):
        for st in ("below1", "above1", "edge", "onebin"):
            cases.append(gen_kernel_exact(r, r.choice([5, 60]), st))
            cases.append(gen_kernel_tol(r, r.choice([5, 60]), st))
    # large inputs (exact lane: integer transport)
    big = [100000] if not thorough else [100000, 1000000]
    for n in big:
        cases.append(gen_kernel_exact(r, n, "mixed"))
        cases.append(gen_kernel_exact(r, n, "onebin"))
    cases.append(gen_h2d(r, big[0], "exact"))
    return cases


# --------------------------------------------------------------------------------------------
# evaluation of one case, shrinking, classification
# --------------------------------------------------------------------------------------------
def impl_of(osy, case, threads=1):
    return run_kernel(osy, case, threads) if case["level"] == "kernel" else run_h2d(osy, case, threads)


def diff_of(case, impl, res):
    return cmp_kernel(case, impl, res) if case["level"] == "kernel" else cmp_h2d(case, impl, res)


def split_result(res):
    """driver 'both' answer -> (model view, spec view) each with the common fields"""
    if "err" in res:
        return res, res
    common = {k: v for k, v in res.items() if k not in ("model", "spec")}
    return dict(common, **res["model"]), dict(common, **res["spec"])


def subcase(case, idx):
    c = dict(case)
    c["xs"] = [case["xs"][i] for i in idx]
    c["ys"] = [case["ys"][i] for i in idx]
    c["values"] = [[l[i] for i in idx] for l in case.get("values", [])]
    return c


def spec_fails(osy, case, rule):
    """impl vs Spec on one case (data lanes, one thread). Returns the difference or None."""
    res = run_geom([lean_line(case, "spec", rule, margin=case["lane"] != "exact")])[0]
    if case["lane"] != "exact" and res.get("margin") is not None and Fraction(res["margin"]) < NEAR_TIE:
        return None
    return diff_of(case, impl_of(osy, case), res)


def floats_json(a):
    return [float(t) if math.isfinite(t) else ("nan" if math.isnan(t) else ("inf" if t > 0 else "-inf")) for t in a]


def kernel_view(case, osy=None):
    """the hist2d call a histogram2d call boils down to: computed for explicit linear limits,
    observed (arguments handed to the kernel) for automatic limits / log axes"""
    if case["level"] == "kernel":
        return case
    if any(v is None for v in case["lim"].values()) or case.get("logx") or case.get("logy"):
        cap = {}
        if osy is None or "raised" in run_h2d(osy, case, capture=cap):
            return None
        try:
            return {"level": "kernel", "lane": "tol", "nx": int(cap["nx"]), "ny": int(cap["ny"]),
                    "xmin": float(cap["xmin"]), "xmax": float(cap["xmax"]), "ymin": float(cap["ymin"]), "ymax": float(cap["ymax"]),
                    "xs": floats_json(np.asarray(cap["x"], dtype=np.float64)), "ys": floats_json(np.asarray(cap["y"], dtype=np.float64)),
                    "values": [], "tags": case["tags"] + ["kernel call observed inside histogram2d"],
                    "original_call": {k: case[k] for k in ("res", "logx", "logy", "lim", "units") if k in case}}
        except (KeyError, TypeError, ValueError):
            return None
    return {"level": "kernel", "lane": case["lane"], "den": case.get("den"), "nx": res_xy(case)[0], "ny": res_xy(case)[1],
            "xmin": case["lim"]["xmin"], "xmax": case["lim"]["xmax"], "ymin": case["lim"]["ymin"], "ymax": case["lim"]["ymax"],
            "xs": case["xs"], "ys": case["ys"], "values": [], "tags": case["tags"]}


def suspects(osy, case, rule):
    """indices of points that the kernel, called with that point alone, puts into another cell than the Spec"""
    from osyris.plot.utils import hist2d

    kv = kernel_view(case, osy)
    if kv is None or not len(kv["xs"]):
        return []
    spec = run_geom([lean_line(kv, "spec", rule, cells=True)])[0]
    if "cells" not in spec:
        return []
    x, y = coords_np(kv, "xs"), coords_np(kv, "ys")
    lims = [lim_float(kv, kv[k]) for k in ("xmin", "xmax", "ymin", "ymax")]
    empty = np.zeros((0, 1), dtype=np.float64)
    bad = []
    with numba_threads(1):
        for i in range(len(x)):
            _, c = hist2d(x[i:i + 1], y[i:i + 1], empty, lims[0], lims[1], kv["nx"], lims[2], lims[3], kv["ny"])
            nz = np.flatnonzero(c.ravel())
            got = int(nz[0]) if len(nz) else None
            if got != spec["cells"][i]:
                bad.append(i)
                if len(bad) >= 3:
                    break
    return bad


def shrink_points(osy, case, rule):
    """one point that still disagrees with the Spec: first the points the kernel alone mis-bins
    (one driver call), else bisection of the point list"""
    if case["level"] == "h2d" and (any(v is None for v in case["lim"].values()) or case.get("logx") or case.get("logy")):
        # automatic limits depend on all points: minimise the kernel call histogram2d makes instead
        kv = kernel_view(case, osy)
        if kv is not None:
            for i in suspects(osy, kv, rule):
                one = subcase(kv, [i])
                if spec_fails(osy, one, rule):
                    return one
        return case
    cur = case
    idx = list(range(len(case["xs"])))
    for i in suspects(osy, case, rule):
        if spec_fails(osy, subcase(case, [i]), rule):
            idx = [i]
            break
    while len(idx) > 1:
        half = len(idx) // 2
        for part in (idx[:half], idx[half:]):
            if spec_fails(osy, subcase(case, part), rule):
                idx = part
                break
        else:
            break
    cur = subcase(case, idx)
    # drop value layers if the counts alone show it
    slim = dict(cur, values=[], ops=[], operation=None)
    if spec_fails(osy, slim, rule):
        cur = slim
    return cur


def classify(case):
    """input class of a (shrunk) failing case, from the position of its points relative to the grid"""
    try:
        if len(case["xs"]) != 1:
            return "several_points"
        if case["level"] == "kernel":
            lims = [lim_float(case, case[k]) for k in ("xmin", "xmax", "ymin", "ymax")]
            nx, ny = case["nx"], case["ny"]
        else:
            if any(v is None for v in case["lim"].values()) or case.get("logx") or case.get("logy"):
                return "histogram2d_limits"
            lims = [lim_float(case, case["lim"][k]) for k in ("xmin", "xmax", "ymin", "ymax")]
            nx, ny = res_xy(case)
        x, y = float(coords_np(case, "xs")[0]), float(coords_np(case, "ys")[0])
        if not (math.isfinite(x) and math.isfinite(y)):
            return "nonfinite_coordinate"
        tx = (x - lims[0]) / ((lims[1] - lims[0]) / nx)
        ty = (y - lims[2]) / ((lims[3] - lims[2]) / ny)
        if -1 < tx < 0 or -1 < ty < 0:
            return "below_lower_limit_within_one_bin"
        if tx == nx or ty == ny:
            return "on_upper_limit"
        if tx == int(tx) or ty == int(ty):
            return "on_bin_edge"
        if tx < 0 or ty < 0 or tx > nx or ty > ny:
            return "outside_range"
        return "inside_range"
    except Exception:  # noqa: BLE001
        return "unclassified"


def small(case, limit=40):
    """a copy fit for the evidence file"""
    if len(case["xs"]) <= limit:
        return case
    c = subcase(case, list(range(limit)))
    c["truncated_from"] = len(case["xs"])
    return c


# --------------------------------------------------------------------------------------------
# thread lane
# --------------------------------------------------------------------------------------------
def thread_patterns(ctx):
    r = ctx.rng
    n = 100000 if ctx.tier == "quick" else 2000000
    pats = []
    for name, nx in (("all_points_one_bin", 1), ("4x4_bins", 4), ("64x64_bins", 64)):
        w = 4
        lo = 0
        xs = [r.randint(lo, lo + nx * w - 1) for _ in range(n)]
        ys = [r.randint(lo, lo + nx * w - 1) for _ in range(n)]
        pats.append({"level": "kernel", "lane": "exact", "den": 4, "nx": nx, "ny": nx, "xmin": lo, "xmax": lo + nx * w,
                     "ymin": lo, "ymax": lo + nx * w, "xs": xs, "ys": ys, "vden": 1, "values": [[1 + (i % 3) for i in range(n)]],
                     "tags": ["threads", name], "pattern": name})
    return pats


def thread_lane(ctx, osy, out, src, dist):
    import numba

    maxt = numba.config.NUMBA_NUM_THREADS
    tlist = [t for t in (1, 2, 4, 16) if t <= maxt]
    reps = 3 if ctx.tier == "quick" else 8
    disc = src["disc"]
    summary = {}
    shown = set()
    for pat in thread_patterns(ctx):
        spec = run_geom([lean_line(pat, "spec", src["rule"])])[0]
        want_counts = [int(c) for c in spec["counts"]]
        want_sum = [float(Fraction(s)) for s in spec["sums"][0]]
        total = sum(want_counts)
        for t in tlist:
            for rep in range(reps):
                impl = run_kernel(osy, pat, threads=t)
                out.evaluations += 1
                out.compared += 1
                key = f"threads:{pat['pattern']}:t{t}"
                dist[key] = dist.get(key, 0) + 1
                out.nontrivial.add(case_hash({"pattern": pat["pattern"], "threads": t, "rep": rep}))
                ok = impl["counts"] == want_counts and impl["sums"][0] == want_sum
                got = sum(impl["counts"])
                s = summary.setdefault(f"{pat['pattern']}:t{t}", {"runs": 0, "bad": 0, "worst_lost_fraction": 0.0})
                s["runs"] += 1
                if ok:
                    continue
                s["bad"] += 1
                s["worst_lost_fraction"] = max(s["worst_lost_fraction"], round(1 - got / max(total, 1), 4))
                within = all(min(1, w) <= g <= w for g, w in zip(impl["counts"], want_counts))
                single_ok = summary.get(f"{pat['pattern']}:t1", {"bad": 0})["bad"] == 0
                # a threading phenomenon the model's discipline does not allow (a difference that is already
                # there with one thread is an index matter and is reported by the data lanes)
                if t > 1 and single_ok and (disc != "sharedRMW" or not within):
                    out.disagreements.append(({"pattern": pat["pattern"], "threads": t, "n": len(pat["xs"])},
                                              f"model discipline {disc} predicts the Spec counts for every schedule; impl counted {got} of {total}"))
                sig = (pat["pattern"],)
                if sig in shown:
                    continue
                shown.add(sig)
                mini = shrink_threads(osy, pat, t)
                out.violations.append({
                    "what": f"hist2d with {mini['threads']} numba threads counted {mini['got']} of {mini['expected']} in-range points "
                            f"({pat['pattern']}; identical call with 1 thread counts all): lost updates on the shared accumulator",
                    "case": mini, "expected": {"sum_counts": mini["expected"]}, "actual": {"sum_counts": mini["got"]},
                    "call_site": "plot.utils.hist2d", "input_class": "threads_colliding_bins"})
    # the user-level call at the default thread count
    n = 200000
    case = {"level": "h2d", "lane": "exact", "den": 4, "res": 2, "xs": [1 + (i % 7) for i in range(n)], "ys": [1 + (i % 5) for i in range(n)],
            "vden": 1, "values": [], "ops": [], "operation": None, "lim": {"xmin": 0, "xmax": 8, "ymin": 0, "ymax": 8},
            "units": ["m", "s"], "quantity_limits": False, "tags": ["threads", "histogram2d"]}
    spec = run_geom([lean_line(case, "spec", src["rule"])])[0]
    for t in tlist:
        impl = run_h2d(osy, case, threads=t)
        out.evaluations += 1
        out.compared += 1
        dist[f"threads:histogram2d:t{t}"] = dist.get(f"threads:histogram2d:t{t}", 0) + 1
        d = cmp_h2d(case, impl, spec)
        s = summary.setdefault(f"histogram2d:t{t}", {"runs": 0, "bad": 0})
        s["runs"] += 1
        if d:
            s["bad"] += 1
            if disc != "sharedRMW":
                out.disagreements.append(({"call": "histogram2d", "threads": t}, d))
            if "h2d" not in shown:
                shown.add("h2d")
                out.violations.append({"what": f"osyris.histogram2d with {t} numba threads: {d} ({n} points in a 2x2 grid)",
                                       "case": dict(small(case), threads=t, n=n, how="xs = 1 + i%7, ys = 1 + i%5 for i < n, in quarter units"),
                                       "call_site": "osyris.histogram2d", "input_class": "threads_colliding_bins"})
    out.extra["thread_lane"] = summary


def shrink_threads(osy, pat, t):
    """fewest threads and (roughly) fewest points for which a run still loses updates (3 tries each)"""
    def loses(n, th, tries=4):
        sub = subcase(pat, list(range(n)))
        spec_total = None
        for _ in range(tries):
            impl = run_kernel(osy, sub, threads=th)
            one = run_kernel(osy, sub, threads=1) if spec_total is None else None
            if one is not None:
                spec_total = sum(one["counts"])
            if sum(impl["counts"]) != spec_total:
                return sum(impl["counts"]), spec_total
        return None
    n = len(pat["xs"])
    th = t
    for cand in (2, 4):
        if cand < th and loses(n, cand):
            th = cand
            break
    last = loses(n, th, tries=6) or (None, None)
    while n > 20000:           # keep enough points for the loss to show up in nearly every run
        r = loses(n // 2, th, tries=2)
        if not r:
            break
        n //= 2
        last = r
    return {"level": "kernel", "pattern": pat["pattern"], "threads": th, "n": n, "nx": pat["nx"], "ny": pat["ny"],
            "how": f"first {n} points of the seeded pattern '{pat['pattern']}' (uniform integers on a {pat['nx']}x{pat['ny']} grid)",
            "got": last[0], "expected": last[1], "seed_pattern": pat["pattern"]}


# --------------------------------------------------------------------------------------------
# sched lane: the executable interleaving model on small schedules (sanity of the model itself)
# --------------------------------------------------------------------------------------------
def sched_lane(ctx, out, dist):
    r = ctx.rng
    lines, meta = [], []
    for _ in range(60 if ctx.tier == "quick" else 600):
        size = r.randint(1, 3)
        nth = r.randint(1, 3)
        chunks = [[[r.randint(0, size - 1), str(r.randint(1, 4))] for _ in range(r.randint(0, 3))] for _ in range(nth)]
        nev = sum(len(c) for c in chunks)
        sched = [r.randint(0, nth) for _ in range(r.randint(0, 2 * nev + 2))]
        for d in ("serial", "atomicAdd", "privateMerge", "sharedRMW"):
            lines.append({"engine": "hist", "level": "sched", "disc": d, "size": size, "chunks": chunks, "sched": sched})
            meta.append(d)
    # the witness of sharedRMW_loses_update
    lines.append({"engine": "hist", "level": "sched", "disc": "sharedRMW", "size": 1, "chunks": [[[0, "1"]], [[0, "1"]]], "sched": [0, 1, 0, 1]})
    meta.append("witness")
    res = run_geom(lines)
    lost = 0
    for ln, d, a in zip(lines, meta, res):
        out.evaluations += 1
        dist["sched:" + d] = dist.get("sched:" + d, 0) + 1
        img, ser = [Fraction(x) for x in a["img"]], [Fraction(x) for x in a["serial"]]
        if d in ("serial", "atomicAdd", "privateMerge"):
            if img != ser:
                out.disagreements.append((ln, f"executable model: discipline {d} differs from the serial fold (contradicts C05_sched)"))
        elif d == "witness":
            if img != [1] or ser != [2]:
                out.disagreements.append((ln, "executable model: the lost-update witness no longer evaluates to 1 vs 2"))
        else:
            if any(not (0 <= x <= s) for x, s in zip(img, ser)):
                out.disagreements.append((ln, "executable model: sharedRMW produced more than the serial fold"))
            lost += img != ser
    out.extra["sched_lane"] = {"schedules": len(lines), "sharedRMW_schedules_losing_updates": lost}


# --------------------------------------------------------------------------------------------
def run(ctx):
    osy = ctx.osyris
    out = Outcome()
    src = detect_source()
    out.extra["extraction"] = {"hist2d": src}
    out.extra["geometry_driver"] = driver_kind()
    rule = src["rule"]
    cases = build_cases(ctx)
    dist = {}
    # ---- data lanes (one thread): impl, then model + spec in one driver pass
    impls = []
    for c in cases:
        impls.append(impl_of(osy, c))
    lines = [lean_line(c, "both", rule, margin=c["lane"] != "exact") for c in cases]
    answers = run_geom(lines)
    seen_sig = {}
    viol_count = {}
    outside = 0
    for c, impl, ans in zip(cases, impls, answers):
        out.evaluations += 1
        key = ":".join(c["tags"])
        dist[key] = dist.get(key, 0) + 1
        n = len(c["xs"])
        dist[f"n<={10 ** len(str(max(n, 1)))}"] = dist.get(f"n<={10 ** len(str(max(n, 1)))}", 0) + 1
        if "err" in ans and ans["err"] == "bad-op":
            raise RuntimeError("driver rejected a case: " + json.dumps(small(c))[:400])
        if ans.get("err") == "bad-grid":
            # the limit logic ends with xmin >= xmax (e.g. explicit lower limit above all the data): not a range, outside the claim
            outside += 1
            continue
        if ans.get("err") == "no-range":
            # automatic limit without any finite value: outside the claim; the code (and the model) refuse
            outside += 1
            out.compared += 1
            if "raised" not in impl:
                out.disagreements.append((small(c), "automatic limit with no finite value: the model refuses (np.amin of an empty array raises), impl returned a result"))
            continue
        if c["lane"] != "exact" and ans.get("margin") is not None and Fraction(ans["margin"]) < NEAR_TIE:
            out.near_tie_skipped += 1
            continue
        model, spec = split_result(ans)
        out.compared += 1
        if n >= 1 and ("err" in ans or int(spec["inrange"]) < n or c["level"] == "h2d"):
            out.nontrivial.add(case_hash({k: v for k, v in c.items() if k != "tags"}) if n <= 3000 else case_hash([c["tags"], n, c["xs"][:50]]))
        if len(out.samples) < 4 and 1 <= n <= 7:
            out.samples.append({"case": c, "impl": trim(impl), "model": trim(model), "spec": trim(spec)})
        dm = diff_of(c, impl, model)
        ds = diff_of(c, impl, spec)
        if ds:
            site = "plot.utils.hist2d" if c["level"] == "kernel" else "osyris.histogram2d"
            mini = None
            if "raised" in impl and "err" not in spec:
                # the call refuses an input the Spec answers: try without points / layers
                bare = dict(c, xs=[], ys=[], values=[], ops=[], operation=None)
                if all(v is not None for v in c["lim"].values()) and "raised" in impl_of(osy, bare):
                    mini = bare
                cls = ("resolution_given_as_dict" if c.get("res_xy") else
                       "limit_given_as_quantity" if c.get("quantity_limits") else "raises_" + impl["raised"])
            else:
                try:
                    mini = shrink_points(osy, c, rule)
                except Exception:  # noqa: BLE001
                    mini = None
                cls = classify(mini or c)
            sig = (site, cls)
            viol_count[f"{site}|{cls}"] = viol_count.get(f"{site}|{cls}", 0) + 1
            if seen_sig.get(sig, 0) < 3:
                seen_sig[sig] = seen_sig.get(sig, 0) + 1
                mc = mini or c
                mres = run_geom([lean_line(mc, "spec", rule)])[0]
                mimpl = impl_of(osy, mc)
                out.violations.append({
                    "what": f"{site}: {diff_of(mc, mimpl, mres) or ds} (point(s) {list(zip(coords_np(mc, 'xs')[:3].tolist(), coords_np(mc, 'ys')[:3].tolist()))}, "
                            f"grid {grid_text(mc)})",
                    "case": small(mc), "expected": trim(mres), "actual": trim(mimpl), "call_site": site, "input_class": cls})
        if dm and not ds:
            out.disagreements.append((small(c), f"impl vs model (rule {rule}): {dm}"))
        elif dm and ds and model.get("counts") != spec.get("counts"):
            # the model-as-coded predicted a deviation from the Spec, but not this one
            pass
    out.extra["violation_counts"] = viol_count
    out.extra["outside_claim"] = outside
    # ---- thread lane and the executable schedule model
    thread_lane(ctx, osy, out, src, dist)
    sched_lane(ctx, out, dist)
    out.distribution = dict(sorted(dist.items()))
    out.rule = ("hist2d called directly and through osyris.histogram2d(plot=False): lengths 0..1e5 (1e6 thorough), resolutions "
                f"{RES}, points inside / exactly on every bin edge / within one bin width outside either limit on both axes / far outside / "
                "NaN, +-inf / all in one bin, 0-3 value layers with sum and mean, explicit, automatic, mixed and degenerate limits, linear and "
                "log axes, units on the arrays; exact lane (dyadic lattice, bit-identical) and tolerant lane (1e-9, near-ties skipped); "
                "thread lane: 1/2/4/16 numba threads x repeats on 1e5 (2e6) colliding points, kernel and histogram2d; "
                "schedule lane: random interleavings on the executable model. impl vs model (index rule and discipline detected from "
                "plot/utils.py) and impl vs Spec. non-trivial = at least one point without a cell, or a histogram2d call, or a multi-thread run; "
                "distinct by case hash")
    return out


def grid_text(c):
    if c["level"] == "kernel":
        return (f"x [{lim_float(c, c['xmin'])}, {lim_float(c, c['xmax'])}) / {c['nx']}, "
                f"y [{lim_float(c, c['ymin'])}, {lim_float(c, c['ymax'])}) / {c['ny']}")
    return f"limits { {k: lim_float(c, v) for k, v in c['lim'].items()} } resolution {c.get('res_xy') or c['res']}"


def trim(d):
    """keep evidence small: images as lists of non-empty bins"""
    o = {}
    for k, v in d.items():
        if k == "counts":
            o["counts_nonzero"] = {i: int(x) for i, x in enumerate(v) if int(x) != 0}
        elif k in ("sums",):
            o[k] = [{i: (x if isinstance(x, str) else float(x)) for i, x in enumerate(l) if x not in ("0", 0.0)} for l in v]
        elif k == "layers":
            o[k] = [{i: x for i, x in enumerate(l) if x is not None} for l in v]
        elif k in ("x", "y"):
            o[k] = v[:4]
        else:
            o[k] = v
    return o


def replay(ctx, path):
    payload = json.load(open(path))
    case = payload["case"]
    osy = ctx.osyris
    src = detect_source()
    if case.get("seed_pattern") or "threads" in case and case.get("level") != "h2d":
        # thread lane: regenerate the seeded pattern and run it again
        pats = [p for p in thread_patterns(ctx) if p["pattern"] == case.get("seed_pattern", case.get("pattern"))]
        pat = subcase(pats[0], list(range(min(case["n"], len(pats[0]["xs"])))))
        one = run_kernel(osy, pat, threads=1)
        run_kernel(osy, pat, threads=case["threads"])          # warm-up: the first parallel call starts the thread pool
        bad = None
        for _ in range(20):
            impl = run_kernel(osy, pat, threads=case["threads"])
            if impl["counts"] != one["counts"]:
                bad = (sum(impl["counts"]), sum(one["counts"]))
                break
        if bad:
            print(f"replay: {case['threads']} threads counted {bad[0]}, one thread counts {bad[1]}")
            print(f"VIOLATION property=C05 replay={path}")
            return 1
        print("replay: 20 multi-threaded runs agree with the single-threaded run")
        return 0
    threads = case.pop("threads", 1) if isinstance(case, dict) else 1
    if "n" in case and case.get("level") == "h2d" and "truncated_from" in case:
        n = case["n"]
        case = dict(case, xs=[1 + (i % 7) for i in range(n)], ys=[1 + (i % 5) for i in range(n)])
        case.pop("truncated_from", None)
    res = run_geom([lean_line(case, "spec", src["rule"], margin=case["lane"] != "exact")])[0]
    impl = impl_of(osy, case, threads)
    d = diff_of(case, impl, res)
    for _ in range(10 if threads > 1 else 0):       # a schedule-dependent loss may need several runs
        if d:
            break
        impl = impl_of(osy, case, threads)
        d = diff_of(case, impl, res)
    print("impl:", json.dumps(trim(impl))[:600])
    print("spec:", json.dumps(trim(res))[:600])
    if d:
        print("difference:", d)
        print(f"VIOLATION property=C05 replay={path}")
        return 1
    print("replay: implementation agrees with the Spec on this input now")
    return 0
