"""C08 Unit conversion preserves the physical quantity; defined units have true values."""
from fractions import Fraction

from .. import lean, ucat
from ..gencore import G, replay_core, run_programs

TRUSTED = [
    "Reference/Constants.lean: IAU 2015 B2/B3 nominal values and CODATA 2018 (committed with sources), relative tolerance 1e-3",
    "pint's parser: the value pint reports for each defined name is read at run time and compared with the extracted table",
]
ASSUMPTIONS = ["round trips are exact in the exact lane and within 1e-9 in the tolerant lane"]

SPELLINGS = {
    "solar_mass": ["M_sun", "M_sol", "solar_mass"],
    "solar_radius": ["R_sun", "R_sol", "solar_radius"],
    "solar_luminosity": ["L_sun", "L_sol", "solar_luminosity"],
    "earth_mass": ["M_earth", "earth_mass"],
    "jupiter_mass": ["M_jup", "jupiter_mass"],
    "earth_radius": ["R_earth", "earth_radius"],
    "jupiter_radius": ["R_jup", "jupiter_radius"],
    "bolometric_luminosity": ["L_bol0", "bolometric_luminosity"],
    "radiation_constant": ["ar", "radiation_constant"],
}
EQUIV = [("cm", "centimeter"), ("m", "meter"), ("g", "gram"), ("s", "second"), ("km/s", "kilometer / second"),
         ("g/cm**3", "g / cm^3"), ("erg", "erg"), ("au", "astronomical_unit"), ("pc", "parsec"), ("yr", "year")]


def gen_case(g):
    r = g.rng
    fams = g.families()
    fam = r.choice(sorted(fams))
    us = fams[fam]
    ua = r.choice(us)
    kind = r.choice(["to", "roundtrip", "chain", "incompatible", "vector", "same"])
    exact = g.lane == "exact"
    dt = r.choice(["f8", "f4", "i8", "i4"] if exact else ["f8", "i8"])
    shape = r.choice([[], [1], [4], [2, 3], [0]])
    prog = [{"op": "arr", "dst": 1, "v": g.arr(shape, dt, ua, name=r.choice(["", "rho"]))}]

    def to(dst, a, u):
        prog.append({"op": "to", "dst": dst, "a": a, "ustr": u, "unit": g.ujson(u)})

    if kind == "to":
        to(2, 1, r.choice(us))
        prog += [{"op": "obs", "v": 2}, {"op": "obs", "v": 1}]
    elif kind == "same":
        to(2, 1, ua)
        prog += [{"op": "obs", "v": 2}, {"op": "same", "a": 1, "b": 2}]
    elif kind == "roundtrip":
        ub = r.choice(us)
        to(2, 1, ub)
        to(3, 2, ua)
        prog += [{"op": "obs", "v": 3}, {"op": "obs", "v": 1}]
    elif kind == "chain":
        ub, uc = r.choice(us), r.choice(us)
        to(2, 1, ub)
        to(3, 2, uc)
        to(4, 1, uc)
        prog += [{"op": "obs", "v": 3}, {"op": "obs", "v": 4}, {"op": "obs", "v": 1}]
    elif kind == "incompatible":
        other = r.choice([f for f in sorted(fams) if f != fam])
        to(2, 1, r.choice(fams[other]))
        prog += [{"op": "obs", "v": 1}]
    else:
        n = r.randint(1, 3)
        cs = []
        for c in range(n):
            prog.append({"op": "arr", "dst": 10 + c, "v": g.arr(shape, dt, ua)})
            cs.append(10 + c)
        prog.append({"op": "vec", "dst": 5, "comps": cs, "name": "v"})
        ut = r.choice(us)
        to(6, 5, ut)
        prog += [{"op": "obs", "v": 6}, {"op": "obs", "v": 5}]
        for c in range(n):
            to(20 + c, 10 + c, ut)
            prog.append({"op": "obs", "v": 20 + c})
    return {"prog": prog, "lane": g.lane, "tags": [kind, fam]}


def nontrivial(case, impl_out):
    return case["tags"][0] != "same"


def classify(prog, actual, expected, diff):
    return ("Array.to / Vector.to", "any")


def check_constants(ctx, out):
    """pint's actual definitions vs the table extracted from defaults.py vs the reference."""
    osy = ctx.osyris
    first = lean.run_driver([{"engine": "consts", "consts": []}])[0]
    generated = first["generated"]
    reported = []
    for c in generated:
        q = (1.0 * osy.units(c["name"])).to(osy.units(c["unit"].replace("^", "**")))
        reported.append({"name": c["name"], "value": ucat.rat_str(Fraction(float(q.magnitude))),
                         "unit": c["unit"], "aliases": c["aliases"]})
        out.evaluations += 1
        out.compared += 1
        want = Fraction(c["value"])
        got = Fraction(float(q.magnitude))
        if abs(got - want) > Fraction(1, 10 ** 12) * abs(want):
            out.disagreements.append(({"constant": c["name"]}, f"pint reports {float(got)} for {c['name']}, the source text says {float(want)}"))
        for al in c["aliases"]:
            out.evaluations += 1
            try:
                same = osy.units(al) == osy.units(c["name"])
            except Exception as e:  # noqa: BLE001
                same = False
            if not same:
                out.violations.append({"what": f"alias {al} is not the unit {c['name']}", "case": {"alias": al, "name": c["name"]},
                                       "call_site": "config.configure_constants", "input_class": "alias:" + al})
    res = lean.run_driver([{"engine": "consts", "consts": reported}])[0]
    for c, ok in zip(reported, res["each"]):
        out.nontrivial.add("const:" + c["name"])
        if not ok:
            out.violations.append({
                "what": f"osyris.units('{c['name']}') = {float(Fraction(c['value']))} {c['unit']} is not the accepted value (Reference/Constants.lean, rel. tol 1e-3)",
                "case": {"constant": c, "how": f"(1.0*osyris.units('{c['name']}')).to('{c['unit']}')"},
                "call_site": "config.configure_constants", "input_class": "constant:" + c["name"]})
    if not res["table"] and all(res["each"]):
        out.violations.append({"what": "a reference constant is not defined by configure_constants (or lacks an alias)",
                               "case": {"defined": [c["name"] for c in reported]},
                               "call_site": "config.configure_constants", "input_class": "missing-constant"})
    # equivalent spellings give the same unit
    for a, b in EQUIV:
        out.evaluations += 1
        if osy.units(a) != osy.units(b):
            out.violations.append({"what": f"osyris.units('{a}') != osyris.units('{b}')", "case": {"a": a, "b": b},
                                   "call_site": "Units.__call__", "input_class": "spelling"})
    u = osy.units("cm")
    if osy.units(u) is not u:
        out.violations.append({"what": "units(Unit) does not return the unit itself", "case": {}, "call_site": "Units.__call__", "input_class": "unit-passthrough"})
    try:
        osy.units(3.0 * u)
        out.violations.append({"what": "units(Quantity) did not raise", "case": {}, "call_site": "Units.__call__", "input_class": "quantity"})
    except TypeError:
        pass
    out.samples.append({"constants_reported_by_pint": reported[:3]})


# name groups: every entry of a group must be read as the same unit (short, long, plural, alias)
ATOMS = [
    ["m", "meter", "metre", "meters"], ["s", "second", "sec", "seconds"], ["g", "gram", "grams"], ["cm", "centimeter", "centimetre"],
    ["mm", "millimeter"], ["ms", "millisecond"], ["kg", "kilogram"], ["km", "kilometer"], ["K", "kelvin"], ["yr", "julian_year"],
    ["pc", "parsec"], ["au", "astronomical_unit"], ["erg"], ["G", "gauss"], ["J", "joule"], ["W", "watt"], ["Pa", "pascal"],
    ["M_sun", "solar_mass", "M_sol"], ["R_sun", "solar_radius"], ["L_sun", "solar_luminosity"], ["M_earth", "earth_mass"],
    ["c", "speed_of_light"], ["k", "boltzmann_constant"], ["h", "hour"], ["mK", "millikelvin"], ["Gs", "gigasecond"],
    ["min", "minute"], ["d", "day"], ["a", "year"], ["l", "liter", "L"], ["N", "newton"], ["mN", "millinewton"], ["T", "tesla"],
    ["vl2"], ["vm4"], ["vt16"],
]


def gen_tree(r, depth):
    if depth == 0 or r.random() < 0.3:
        return {"k": "atom", "group": r.randrange(len(ATOMS))}
    k = r.choice(["mul", "mul", "div", "pow"])
    if k == "pow":
        return {"k": "pow", "a": gen_tree(r, depth - 1), "n": r.choice([-3, -2, -1, 2, 3])}
    return {"k": k, "a": gen_tree(r, depth - 1), "b": gen_tree(r, depth - 1)}


def _wordy(ch):
    return ch.isalnum() or ch == "_"


def render(r, t, style):
    """style 'canon': first name of each group, explicit `*`, `**`, `/`, every compound operand parenthesised.
    style 'free': a random spelling inside the part of pint's grammar that is unambiguous: any name of the group, `^` or `**`,
    blanks around operators, `a/b` or `a*b**-1`, reordered factors, and a blank as the product sign between two operands that
    end / start with a name character (pint gives a blank next to a parenthesis a different meaning)."""
    k = t["k"]
    if k == "atom":
        names = ATOMS[t["group"]]
        return names[0] if style == "canon" else r.choice(names)
    if k == "pow":
        a = render(r, t["a"], style)
        if t["a"]["k"] != "atom":
            a = "(" + a + ")"
        op = "**" if style == "canon" else r.choice(["**", "^", " ** "])
        return f"{a}{op}{t['n']}"
    a, b = render(r, t["a"], style), render(r, t["b"], style)
    if t["a"]["k"] == "div":
        a = "(" + a + ")"
    if t["b"]["k"] in ("mul", "div"):
        b = "(" + b + ")"

    def product(x, y):
        seps = ["*", " * "]
        if _wordy(x[-1]) and _wordy(y[0]):
            seps += [" ", " ", "  "]
        return x + r.choice(seps) + y

    if k == "mul":
        if style == "canon":
            return f"{a}*{b}"
        if r.random() < 0.3 and t["a"]["k"] != "mul":
            return product(b, a if t["a"]["k"] == "atom" or a.startswith("(") else "(" + a + ")")
        return product(a, b)
    if style != "canon" and r.random() < 0.3:
        bb = b if t["b"]["k"] == "atom" else "(" + b + ")"  # `x**-2**-1` is right-associative: parenthesise powers too
        return product(a, bb + "**-1")
    return f"{a}{'/' if style == 'canon' else r.choice(['/', ' / '])}{b}"


def check_spellings(ctx, out):
    """`osyris.units` returns the same unit for equivalent spellings: every spelling of one expression tree is read as the unit the
    tree denotes (UExpr.eval of the Lean model over the atoms' units); all spellings are parsed in one process in random order, so
    a result that depends on what was parsed before shows up as two spellings of one tree disagreeing."""
    osy = ctx.osyris
    r = ctx.rng
    ntree = 120 if ctx.tier == "quick" else 2500
    # alias groups first, in random order
    order = [(gi, nm) for gi, names in enumerate(ATOMS) for nm in names]
    r.shuffle(order)
    atom_unit = {}
    for gi, nm in order:
        out.evaluations += 1
        try:
            u = osy.units(nm)
        except Exception as e:  # noqa: BLE001
            out.violations.append({"what": f"osyris.units('{nm}') raises {type(e).__name__}", "case": {"name": nm},
                                   "call_site": "Units.__call__", "input_class": "spelling"})
            continue
        atom_unit.setdefault(gi, (nm, u))
        if u != atom_unit[gi][1]:
            out.violations.append({"what": f"osyris.units('{nm}') = {u} but osyris.units('{atom_unit[gi][0]}') = {atom_unit[gi][1]}",
                                   "case": {"a": nm, "b": atom_unit[gi][0]}, "call_site": "Units.__call__", "input_class": "spelling"})
    trees = [gen_tree(r, r.choice([1, 2, 2, 3])) for _ in range(ntree)]
    # the hand-picked blank-as-product cases whose letters also spell another unit
    for a, b in [("m", "s"), ("m", "m"), ("c", "m"), ("k", "g"), ("m", "K"), ("G", "s"), ("m", "N"), ("k", "m"), ("d", "a"), ("m", "min")]:
        ga = next(i for i, n in enumerate(ATOMS) if n[0] == a)
        gb = next(i for i, n in enumerate(ATOMS) if n[0] == b)
        trees.append({"k": "mul", "a": {"k": "atom", "group": ga}, "b": {"k": "atom", "group": gb}, "short": True})

    def with_units(t):
        if t["k"] == "atom":
            return {"k": "atom", "u": ucat.unit_json(osy, atom_unit[t["group"]][1])}
        d = {"k": t["k"], "a": with_units(t["a"])}
        if "b" in t:
            d["b"] = with_units(t["b"])
        if "n" in t:
            d["n"] = t["n"]
        return d

    jobs = []
    for t in trees:
        try:
            jobs.append({"engine": "uexpr", "expr": with_units(t)})
        except (KeyError, ucat.UnsupportedUnit):
            jobs.append(None)
    res = lean.run_driver([j for j in jobs if j is not None])
    it = iter(res)
    nsp = 0
    for t, j in zip(trees, jobs):
        if j is None:
            continue
        model = next(it).get("unit")
        canon = render(r, t, "canon")
        if t.get("short"):
            a, b = ATOMS[t["a"]["group"]][0], ATOMS[t["b"]["group"]][0]
            spellings = [f"{a} {b}", f"{a}*{b}", f"{b} {a}"]
        else:
            spellings = [render(r, t, "free") for _ in range(3)]
        r.shuffle(spellings)
        seen = []
        for sp in [canon] + spellings:
            out.evaluations += 1
            nsp += 1
            try:
                u = osy.units(sp)
                uj = ucat.unit_json(osy, u)
            except ucat.UnsupportedUnit:
                continue
            except Exception as e:  # noqa: BLE001
                u, uj = None, {"err": type(e).__name__}
            seen.append((sp, u, uj))
        out.compared += 1
        out.nontrivial.add("spell:" + canon)
        if not seen:
            continue
        sp0, u0, uj0 = seen[0]
        bad = next(((sp, u, uj) for sp, u, uj in seen[1:] if (u is None) != (u0 is None) or (u is not None and u != u0)), None)
        if bad is not None:
            out.violations.append({"what": f"equivalent spellings are read as different units: osyris.units({sp0!r}) = {u0}, osyris.units({bad[0]!r}) = {bad[1]}"
                                           " (all spellings parsed in this process, in this order: " + ", ".join(repr(x[0]) for x in seen) + ")",
                                   "case": {"spellings": [x[0] for x in seen], "tree": t}, "call_site": "Units.__call__", "input_class": "spelling"})
        elif model is not None and u0 is not None and (uj0["s"] != model["s"] or uj0["d"] != model["d"]):
            out.disagreements.append(({"spelling": sp0, "tree": t}, f"osyris.units({sp0!r}) = {uj0['s']} but the tree denotes {model['s']}"))
    out.extra["spellings_parsed"] = nsp
    out.extra["expression_trees"] = len(trees)


def run(ctx):
    n = 600 if ctx.tier == "quick" else 12000
    ge = G(ctx.rng, ctx.osyris, "exact")
    gt = G(ctx.rng, ctx.osyris, "tol")
    cases = [gen_case(ge if i % 2 else gt) for i in range(n)]
    if ctx.tier == "thorough":
        # every ordered pair of every family of the real catalogue
        for fam, us in ucat.REAL_FAMILIES.items():
            for ua in us:
                for ub in us:
                    prog = [{"op": "arr", "dst": 1, "v": gt.arr([3], "f8", ua)},
                            {"op": "to", "dst": 2, "a": 1, "ustr": ub, "unit": gt.ujson(ub)},
                            {"op": "to", "dst": 3, "a": 2, "ustr": ua, "unit": gt.ujson(ua)},
                            {"op": "obs", "v": 2}, {"op": "obs", "v": 3}, {"op": "obs", "v": 1}]
                    cases.append({"prog": prog, "lane": "tol", "tags": ["pair", fam]})
    out = run_programs(ctx, cases, nontrivial, known_classifier=classify)
    check_constants(ctx, out)
    check_spellings(ctx, out)
    dist = {}
    for c in cases:
        k = c["tags"][0] + ":" + c["lane"]
        dist[k] = dist.get(k, 0) + 1
    out.distribution = {"kind:lane": dist}
    out.rule = ("conversions a.to(u): single, identity, round trip, chain a->b->c vs a->c, incompatible, Vector vs its components; "
                "units from every family, dtypes f8/f4/i8/i4, shapes 0-d..2-d and empty (thorough: every ordered pair of the real catalogue); "
                "plus every constant defined by defaults.py: pint's value vs the extracted table vs the reference, aliases, spellings. "
                "non-trivial = anything but the identity conversion; distinct by program hash / constant name")
    return out


def replay(ctx, path):
    import json

    payload = json.load(open(path))
    case = payload.get("case", {})
    if "prog" in case:
        return replay_core(ctx, path)
    out_cls = type("O", (), {})
    from ..framework import Outcome

    o = Outcome()
    check_constants(ctx, o)
    for v in o.violations:
        print(v["what"])
    if o.violations:
        print(f"VIOLATION property=C08 replay={path}")
        return 1
    print("replay: constants agree with the reference now")
    return 0
