"""C08 Unit conversion preserves the physical quantity; defined units have true values."""
from fractions import Fraction

from .. import lean, ucat
from ..gencore import G, replay_core, run_programs

TRUSTED = [
    "Reference/Constants.lean: IAU 2015 B2/B3 nominal values and CODATA 2018 (committed with sources), relative tolerance 1e-3",
    "pint's parser: the value pint reports for each defined name is read at run time and compared with the extracted table",
]
ASSUMPTIONS = ["round trips are exact in the exact lane and within 1e-9 in the tolerant lane"]

SPELLINGS = {
    "solar_mass": ["M_sun", "M_sol", "solar_mass"],
    "solar_radius": ["R_sun", "R_sol", "solar_radius"],
    "solar_luminosity": ["L_sun", "L_sol", "solar_luminosity"],
    "earth_mass": ["M_earth", "earth_mass"],
    "jupiter_mass": ["M_jup", "jupiter_mass"],
    "earth_radius": ["R_earth", "earth_radius"],
    "jupiter_radius": ["R_jup", "jupiter_radius"],
    "bolometric_luminosity": ["L_bol0", "bolometric_luminosity"],
    "radiation_constant": ["ar", "radiation_constant"],
}
EQUIV = [("cm", "centimeter"), ("m", "meter"), ("g", "gram"), ("s", "second"), ("km/s", "kilometer / second"),
         ("g/cm**3", "g / cm^3"), ("erg", "erg"), ("au", "astronomical_unit"), ("pc", "parsec"), ("yr", "year")]


def gen_case(g):
    r = g.rng
    fams = g.families()
    fam = r.choice(sorted(fams))
    us = fams[fam]
    ua = r.choice(us)
    kind = r.choice(["to", "roundtrip", "chain", "incompatible", "vector", "same"])
    exact = g.lane == "exact"
    dt = r.choice(["f8", "f4", "i8", "i4"] if exact else ["f8", "i8"])
    shape = r.choice([[], [1], [4], [2, 3], [0]])
    prog = [{"op": "arr", "dst": 1, "v": g.arr(shape, dt, ua, name=r.choice(["", "rho"]))}]

    def to(dst, a, u):
        prog.append({"op": "to", "dst": dst, "a": a, "ustr": u, "unit": g.ujson(u)})

    if kind == "to":
        to(2, 1, r.choice(us))
        prog += [{"op": "obs", "v": 2}, {"op": "obs", "v": 1}]
    elif kind == "same":
        to(2, 1, ua)
        prog += [{"op": "obs", "v": 2}, {"op": "same", "a": 1, "b": 2}]
    elif kind == "roundtrip":
        ub = r.choice(us)
        to(2, 1, ub)
        to(3, 2, ua)
        prog += [{"op": "obs", "v": 3}, {"op": "obs", "v": 1}]
    elif kind == "chain":
        ub, uc = r.choice(us), r.choice(us)
        to(2, 1, ub)
        to(3, 2, uc)
        to(4, 1, uc)
        prog += [{"op": "obs", "v": 3}, {"op": "obs", "v": 4}, {"op": "obs", "v": 1}]
    elif kind == "incompatible":
        other = r.choice([f for f in sorted(fams) if f != fam])
        to(2, 1, r.choice(fams[other]))
        prog += [{"op": "obs", "v": 1}]
    else:
        n = r.randint(1, 3)
        cs = []
        for c in range(n):
            prog.append({"op": "arr", "dst": 10 + c, "v": g.arr(shape, dt, ua)})
            cs.append(10 + c)
        prog.append({"op": "vec", "dst": 5, "comps": cs, "name": "v"})
        ut = r.choice(us)
        to(6, 5, ut)
        prog += [{"op": "obs", "v": 6}, {"op": "obs", "v": 5}]
        for c in range(n):
            to(20 + c, 10 + c, ut)
            prog.append({"op": "obs", "v": 20 + c})
    return {"prog": prog, "lane": g.lane, "tags": [kind, fam]}


def nontrivial(case, impl_out):
    return case["tags"][0] != "same"


def classify(prog, actual, expected, diff):
    return ("Array.to / Vector.to", "any")


def check_constants(ctx, out):
    """pint's actual definitions vs the table extracted from defaults.py vs the reference."""
    osy = ctx.osyris
    first = lean.run_driver([{"engine": "consts", "consts": []}])[0]
    generated = first["generated"]
    reported = []
    for c in generated:
        q = (1.0 * osy.units(c["name"])).to(osy.units(c["unit"].replace("^", "**")))
        reported.append({"name": c["name"], "value": ucat.rat_str(Fraction(float(q.magnitude))),
                         "unit": c["unit"], "aliases": c["aliases"]})
        out.evaluations += 1
        out.compared += 1
        want = Fraction(c["value"])
        got = Fraction(float(q.magnitude))
        if abs(got - want) > Fraction(1, 10 ** 12) * abs(want):
            out.disagreements.append(({"constant": c["name"]}, f"pint reports {float(got)} for {c['name']}, the source text says {float(want)}"))
        for al in c["aliases"]:
            out.evaluations += 1
            try:
                same = osy.units(al) == osy.units(c["name"])
            except Exception as e:  # noqa: BLE001
                same = False
            if not same:
                out.violations.append({"what": f"alias {al} is not the unit {c['name']}", "case": {"alias": al, "name": c["name"]},
                                       "call_site": "config.configure_constants", "input_class": "alias:" + al})
    res = lean.run_driver([{"engine": "consts", "consts": reported}])[0]
    for c, ok in zip(reported, res["each"]):
        out.nontrivial.add("const:" + c["name"])
        if not ok:
            out.violations.append({
                "what": f"osyris.units('{c['name']}') = {float(Fraction(c['value']))} {c['unit']} is not the accepted value (Reference/Constants.lean, rel. tol 1e-3)",
                "case": {"constant": c, "how": f"(1.0*osyris.units('{c['name']}')).to('{c['unit']}')"},
                "call_site": "config.configure_constants", "input_class": "constant:" + c["name"]})
    if not res["table"] and all(res["each"]):
        out.violations.append({"what": "a reference constant is not defined by configure_constants (or lacks an alias)",
                               "case": {"defined": [c["name"] for c in reported]},
                               "call_site": "config.configure_constants", "input_class": "missing-constant"})
    # equivalent spellings give the same unit
    for a, b in EQUIV:
        out.evaluations += 1
        if osy.units(a) != osy.units(b):
            out.violations.append({"what": f"osyris.units('{a}') != osyris.units('{b}')", "case": {"a": a, "b": b},
                                   "call_site": "Units.__call__", "input_class": "spelling"})
    u = osy.units("cm")
    if osy.units(u) is not u:
        out.violations.append({"what": "units(Unit) does not return the unit itself", "case": {}, "call_site": "Units.__call__", "input_class": "unit-passthrough"})
    try:
        osy.units(3.0 * u)
        out.violations.append({"what": "units(Quantity) did not raise", "case": {}, "call_site": "Units.__call__", "input_class": "quantity"})
    except TypeError:
        pass
    out.samples.append({"constants_reported_by_pint": reported[:3]})


def run(ctx):
    n = 600 if ctx.tier == "quick" else 12000
    ge = G(ctx.rng, ctx.osyris, "exact")
    gt = G(ctx.rng, ctx.osyris, "tol")
    cases = [gen_case(ge if i % 2 else gt) for i in range(n)]
    if ctx.tier == "thorough":
        # every ordered pair of every family of the real catalogue
        for fam, us in ucat.REAL_FAMILIES.items():
            for ua in us:
                for ub in us:
                    prog = [{"op": "arr", "dst": 1, "v": gt.arr([3], "f8", ua)},
                            {"op": "to", "dst": 2, "a": 1, "ustr": ub, "unit": gt.ujson(ub)},
                            {"op": "to", "dst": 3, "a": 2, "ustr": ua, "unit": gt.ujson(ua)},
                            {"op": "obs", "v": 2}, {"op": "obs", "v": 3}, {"op": "obs", "v": 1}]
                    cases.append({"prog": prog, "lane": "tol", "tags": ["pair", fam]})
    out = run_programs(ctx, cases, nontrivial, known_classifier=classify)
    check_constants(ctx, out)
    dist = {}
    for c in cases:
        k = c["tags"][0] + ":" + c["lane"]
        dist[k] = dist.get(k, 0) + 1
    out.distribution = {"kind:lane": dist}
    out.rule = ("conversions a.to(u): single, identity, round trip, chain a->b->c vs a->c, incompatible, Vector vs its components; "
                "units from every family, dtypes f8/f4/i8/i4, shapes 0-d..2-d and empty (thorough: every ordered pair of the real catalogue); "
                "plus every constant defined by defaults.py: pint's value vs the extracted table vs the reference, aliases, spellings. "
                "non-trivial = anything but the identity conversion; distinct by program hash / constant name")
    return out


def replay(ctx, path):
    import json

    payload = json.load(open(path))
    case = payload.get("case", {})
    if "prog" in case:
        return replay_core(ctx, path)
    out_cls = type("O", (), {})
    from ..framework import Outcome

    o = Outcome()
    check_constants(ctx, o)
    for v in o.violations:
        print(v["what"])
    if o.violations:
        print(f"VIOLATION property=C08 replay={path}")
        return 1
    print("replay: constants agree with the reference now")
    return 0
