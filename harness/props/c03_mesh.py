"""Shared machinery of the map checks (C03 zero-thickness maps, C11 thick maps).

* meshes: random AMR leaf tilings (quad / oct trees of 1-4 levels, complete or with holes), on an
  integer lattice (finest cell = 2 lattice units, `den` lattice units per unit of length: every
  centre, size and face is a dyadic rational), built by hand as `osyris.Datagroup`s
* `run_impl`: the real `osyris.map(layer..., plot=False, ...)`
* `observe`: what the harness reads from the library for the model: the basis `get_direction` returns
  (doubles, handed over as exact rationals), the window converted to the unit of the positions by
  pint, the scale ratio of the returned coordinates, `np.sqrt(ndim)`
* `lean_line` / `compare_*`: the "map" engine of the driver (OsyrisModel/MapModel.lean) and the two
  comparisons: impl vs model-as-coded (disagreements) and impl vs Spec (violations)."""
import contextlib
import io
import math
import os
import re
from fractions import Fraction

import numpy as np

from .. import env
from .c03_geom import driver_kind, run_map  # noqa: F401

EPS = Fraction(1, 10 ** 9)
MAPPY = os.path.join(env.REPO, "src", "osyris", "plot", "map.py")
SNAPSHOT = {"slab": "sound", "radial": "sound", "depth": "sound", "depth2d": "sound"}
UTILSPY = os.path.join(env.REPO, "src", "osyris", "plot", "utils.py")
OPS = ["sum", "mean", "min", "max", "nansum", "nanmean", "nanmin", "nanmax"]
BRICK = (44, 117, 240)          # Euler brick: every pair of edges has an integer diagonal


# --------------------------------------------------------------------------------------------
# which pre-selection formulas does the source use?
# --------------------------------------------------------------------------------------------
def detect_source():
    info = {"file": MAPPY}
    try:
        txt = "\n".join(l.split("#")[0] for l in open(MAPPY).read().splitlines())
        flat = re.sub(r"\s+", " ", txt)
        m = re.search(r"selection_distance = (.*?) normal = ", flat)
        if not m:
            raise ValueError("selection_distance not found")
        stmt = m.group(1)
        if re.search(r"\(\s*dz if thick else cell_size\s*\)", stmt):
            slab = "coded"
        elif "dz" in stmt and "cell_size" in stmt and "+" in stmt:
            slab = "sound"
        else:
            raise ValueError("selection_distance has an unknown shape: " + stmt[:120])
        m = re.search(r"radial_distance = (.*?) radial_selection = ", flat)
        if not m:
            radial = "sound" if "radial" not in flat else None
            if radial is None:
                raise ValueError("radial_distance not found")
        else:
            stmt = m.group(1)
            if re.search(r"xyz\[indices_close_to_plane\]\s*-\s*0\.5", stmt):
                radial = "coded"
            elif re.search(r"xyz\[indices_close_to_plane\]\s*\.norm", stmt):
                radial = "sound"
            else:
                raise ValueError("radial_distance has an unknown shape: " + stmt[:120])
        m = re.search(r"if xmin is None: (.*?) scalar_layer = ", flat)
        if not m:
            raise ValueError("automatic window block not found")
        depth = "sound" if re.search(r"\bthick\b", m.group(1)) else "coded"
        ktxt = re.sub(r"\s+", " ", "\n".join(l.split("#")[0] for l in open(UTILSPY).read().splitlines()))
        m = re.search(r"def evaluate_on_grid\(.*?return out", ktxt)
        if not m:
            raise ValueError("evaluate_on_grid not found")
        depth2d = "sound" if re.search(r"iz2 = nz\b", m.group(0)) else "coded"
        info.update(slab=slab, radial=radial, depth=depth, depth2d=depth2d, source="detected")
    except Exception as e:  # noqa: BLE001
        info.update(slab=SNAPSHOT["slab"], radial=SNAPSHOT["radial"], depth=SNAPSHOT["depth"], depth2d=SNAPSHOT["depth2d"],
                    source="fallback", why=str(e))
    return info


# --------------------------------------------------------------------------------------------
# rationals <-> floats
# --------------------------------------------------------------------------------------------
def fstr(f):
    f = Fraction(f)
    return str(f.numerator) if f.denominator == 1 else f"{f.numerator}/{f.denominator}"


def fs(v):
    return fstr(Fraction(float(v)))


def is_pow2(x):
    x = Fraction(x)
    if x <= 0:
        return False
    n, d = x.numerator, x.denominator
    return (n & (n - 1)) == 0 and (d & (d - 1)) == 0


def is_dyadic(x, bits=40):
    x = Fraction(x)
    d = x.denominator
    return (d & (d - 1)) == 0 and d <= 2 ** bits and abs(x.numerator) < 2 ** 50


# --------------------------------------------------------------------------------------------
# meshes
# --------------------------------------------------------------------------------------------
def gen_mesh(r, ndim, max_cells=400, l0=None, extra=None, p_refine=None, p_hole=None):
    """Random AMR leaf tiling on an integer lattice. Finest possible cell = 2 lattice units."""
    l0 = r.choice([0, 1, 1, 2]) if l0 is None else l0
    extra = r.choice([0, 1, 2, 3]) if extra is None else extra
    if ndim == 3 and l0 == 2 and extra == 3:
        extra = 2
    p_refine = r.choice([0.25, 0.4, 0.6, 1.0]) if p_refine is None else p_refine
    p_hole = r.choice([0, 0, 0, 0.08, 0.3]) if p_hole is None else p_hole
    side = 2 * 2 ** (l0 + extra)
    nb = 2 ** l0
    bsize = side // nb
    lo = [r.choice([0, -side // 2, -side, side, r.randrange(-4, 5) * bsize]) for _ in range(ndim)]
    leaves = []

    def rec(corner, size, depth):
        if depth < extra and size > 2 and r.random() < p_refine and len(leaves) < max_cells:
            h = size // 2
            for off in range(2 ** ndim):
                rec([corner[a] + h * ((off >> a) & 1) for a in range(ndim)], h, depth + 1)
        else:
            leaves.append(([corner[a] + size // 2 for a in range(ndim)], size))

    for off in range(nb ** ndim):
        idx = [(off // nb ** a) % nb for a in range(ndim)]
        rec([lo[a] + idx[a] * bsize for a in range(ndim)], bsize, 0)
    if p_hole:
        kept = [c for c in leaves if r.random() >= p_hole]
        leaves = kept or leaves[:1]
    r.shuffle(leaves)
    den = r.choice([max(1, side // 4), max(1, side // 2), side, side, 2 * side, 16 * side])
    return {"ndim": ndim, "den": den, "centres": [c + [0] * (3 - ndim) for c, _ in leaves], "sizes": [s for _, s in leaves],
            "box": {"lo": lo, "side": side}, "complete": not p_hole,
            "levels": len({s for _, s in leaves})}


def uniform_mesh(ndim, nb, den=None, lo=None):
    """nb^ndim equal cells (size 2 lattice units)."""
    lo = lo or [0] * ndim
    cs = []
    for off in range(nb ** ndim):
        idx = [(off // nb ** a) % nb for a in range(ndim)]
        cs.append([lo[a] + 2 * idx[a] + 1 for a in range(ndim)] + [0] * (3 - ndim))
    return {"ndim": ndim, "den": den or 2 * nb, "centres": cs, "sizes": [2] * len(cs), "box": {"lo": lo, "side": 2 * nb},
            "complete": True, "levels": 1}


def gen_layers(r, ncell, ndim, how, exact=True, nan_values=False):
    """`how`: list of 'scalar' / 'vector'."""
    out = []
    perm = list(range(ncell))
    r.shuffle(perm)
    for li, kind in enumerate(how):
        if kind == "scalar":
            if li == 0:
                vals = [float(p + 1) for p in perm]
            elif exact:
                vals = [(3 * p - ncell) / 8.0 for p in perm]
            else:
                vals = [r.uniform(-5, 5) for _ in perm]
            # the dtype of the stored values: maps of integer variables (level, cpu) and single-precision outputs are ordinary uses
            dt = r.choice(["f8", "f8", "f8", "f4", "i8", "i4"])
            if dt in ("i8", "i4"):
                vals = [float(p + 1) for p in perm] if li == 0 else [float(3 * p - ncell) for p in perm]
            elif dt == "f4":
                vals = [float(np.float32(v)) for v in vals]
            if nan_values and dt in ("f8", "f4"):
                for i in r.sample(range(ncell), max(1, ncell // 6)):
                    vals[i] = None
            out.append({"key": ["density", "temperature", "pressure"][li % 3] + (str(li) if li >= 3 else ""), "kind": "scalar",
                        "unit": ["g/cm**3", "K", "erg/cm**3"][li % 3], "vals": vals, "dtype": dt})
        else:
            vals = []
            for p in perm:
                if exact:
                    k = (p % 7 + 1) / 4.0
                    b = list(BRICK)
                    r.shuffle(b)
                    w = [k * c * r.choice([1, -1]) for c in b]
                else:
                    w = [r.uniform(-3, 3) for _ in range(3)]
                vals.append(w[:ndim] + [0.0] * (3 - ndim))
            lay = {"key": "velocity", "kind": "vector", "unit": "cm/s", "vals": vals}
            if ndim == 2 and r.random() < 0.5:
                # a three-component field on a 2-D mesh (an out-of-plane component, 2.5-D MHD): the map shows its in-plane
                # part, the third value of every cell is not zero
                lay["full3"] = True
                lay["vals"] = [[w[0], w[1], (i % 5 + 1) * 0.75 * (1 if i % 2 else -1)] for i, w in enumerate(vals)]
            out.append(lay)
    return out


def cell_of_point(mesh, pt):
    """index of a cell whose closed cube contains the lattice point `pt` (Fractions, lattice units), or None"""
    nd = mesh["ndim"]
    for i, (c, s) in enumerate(zip(mesh["centres"], mesh["sizes"])):
        if all(abs(Fraction(pt[a]) - c[a]) * 2 <= s for a in range(nd)):
            return i
    return None


# --------------------------------------------------------------------------------------------
# the real implementation
# --------------------------------------------------------------------------------------------
@contextlib.contextmanager
def numba_threads(k):
    import numba

    old = numba.get_num_threads()
    numba.set_num_threads(max(1, min(k, numba.config.NUMBA_NUM_THREADS)))
    try:
        yield
    finally:
        numba.set_num_threads(old)


def build_group(osy, case):
    nd = case["ndim"]
    den = float(case["den"])
    c = np.array(case["centres"], dtype=np.float64).reshape(-1, 3) / den
    s = np.array(case["sizes"], dtype=np.float64) / den
    unit = case["unit"]
    dg = osy.Datagroup()
    if nd == 3:
        dg["position"] = osy.Vector(c[:, 0].copy(), c[:, 1].copy(), c[:, 2].copy(), unit=unit)
    else:
        dg["position"] = osy.Vector(c[:, 0].copy(), c[:, 1].copy(), unit=unit)
    dg["dx"] = osy.Array(s, unit=unit)
    if case.get("size_unit"):
        # the cell sizes stored in another length unit than the positions (same physical sizes)
        f = float((1.0 * osy.units(unit)).to(case["size_unit"]).magnitude)
        dg["dx"] = osy.Array(s * f, unit=case["size_unit"])
    have_vel = False
    for lay in case["layers"]:
        if lay["kind"] == "scalar":
            vals = np.array([np.nan if v is None else v for v in lay["vals"]], dtype=np.float64)
            vals = vals.astype({"f8": np.float64, "f4": np.float32, "i8": np.int64, "i4": np.int32}[lay.get("dtype", "f8")])
            dg[lay["key"]] = osy.Array(vals, unit=lay["unit"])
        else:
            w = np.array(lay["vals"], dtype=np.float64).reshape(-1, 3)
            comps = [w[:, a].copy() for a in range(3 if lay.get("full3") else nd)]
            dg[lay["key"]] = osy.Vector(*comps, unit=lay["unit"])
            have_vel = have_vel or lay["key"] == "velocity"
    n = len(s)
    dg["mass"] = osy.Array(np.array([1.0 + (i % 5) for i in range(n)]), unit="g")
    if not have_vel:
        # a rotation about (1, 2, 3) through the box centre, so that 'top' / 'side' have something to look at
        ctr = c.mean(axis=0)
        rel = c - ctr
        ax = np.array([1.0, 2.0, 3.0])
        vel = np.cross(ax, rel)
        comps = [vel[:, a].copy() for a in range(nd)]
        dg["velocity"] = osy.Vector(*comps, unit="cm/s")
    return dg


def qty(osy, d):
    return None if d is None else float(d["v"]) * osy.units(d["unit"])


def direction_arg(osy, case):
    d = case["direction"]
    if d["kind"] in ("letter", "triple", "str"):
        return d["s"]
    if d["kind"] == "vec":
        return osy.Vector(*[float(t) for t in d["v"]])
    raise ValueError("direction kind " + d["kind"])


def resolution_arg(case):
    res = case["res"]
    return dict(res) if isinstance(res, dict) else res      # a fresh dict per call (map() writes into it: C19)


def make_layers(dg, case):
    out = []
    for l in case["layers"]:
        kw = {"mode": "vec"} if l["kind"] == "vector" else {}
        if l.get("op") is not None:
            kw["operation"] = l["op"]      # the layer's own depth reduction (takes precedence over the call's)
        out.append(dg.layer(l["key"], **kw))
    return out


def row_ops(case):
    """the depth reduction of every binned row: the layer's own operation, else the call's (three rows per vector layer)"""
    ops = []
    for l in case["layers"]:
        o = l.get("op") or case.get("op") or "sum"
        ops.extend([o] if l["kind"] == "scalar" else [o, o, o])
    return ops


def origin_arg(osy, case):
    nd = case["ndim"]
    if case.get("origin") is None:
        return None
    return osy.Vector(*[float(t) for t in case["origin"][:nd]], unit=case.get("origin_unit", case["unit"]))


def run_impl(osy, case, threads=1):
    """The real call. Masked pixels -> None, NaN -> 'nan'."""
    dg = build_group(osy, case)
    layers = make_layers(dg, case)
    kw = {"plot": False, "direction": direction_arg(osy, case), "resolution": resolution_arg(case)}
    for k in ("dx", "dy", "dz"):
        if case.get(k) is not None:
            kw[k] = qty(osy, case[k])
    if case.get("origin") is not None:
        kw["origin"] = origin_arg(osy, case)
    if case.get("op") is not None:
        kw["operation"] = case["op"]
    try:
        with numba_threads(threads), contextlib.redirect_stdout(io.StringIO()), np.errstate(all="ignore"):
            p = osy.map(*layers, **kw)
    except Exception as e:  # noqa: BLE001
        return {"raised": type(e).__name__, "msg": str(e)[:160]}
    res = {"x": [float(t) for t in np.asarray(p.x)], "y": [float(t) for t in np.asarray(p.y)], "layers": []}
    spatial = osy.units(case["unit"])
    for lay, out in zip(case["layers"], p.layers):
        d = out["data"]
        mask = np.ma.getmaskarray(d)
        data = np.ma.getdata(d)
        if lay["kind"] == "scalar":
            comps = [(mask.ravel(), data.ravel())]
        else:
            comps = [(mask[..., a].ravel(), data[..., a].ravel()) for a in range(3)]
        before = osy.units(lay["unit"])
        power = None
        for pw in (0, 1, 2):
            try:
                f = (1.0 * out["unit"]).to(before * spatial ** pw).magnitude
                if abs(f - 1.0) <= 1e-12:
                    power = pw
                    break
            except Exception:  # noqa: BLE001
                continue
        res["layers"].append({"kind": lay["kind"], "shape": list(d.shape), "unit_power": power, "unit": str(out["unit"]),
                              "comps": [[None if m else (float(t) if not math.isnan(t) else "nan") for m, t in zip(mm, dd)]
                                        for mm, dd in comps]})
    return res


def observe(osy, case):
    """What the model needs from the library: converted window, scale ratio, basis, sqrt(ndim)."""
    from osyris.plot.direction import get_direction

    nd = case["ndim"]
    dg = build_group(osy, case)
    layers = make_layers(dg, case)
    spatial = dg["position"].unit
    dx = qty(osy, case.get("dx"))
    dy = qty(osy, case.get("dy"))
    dz = qty(osy, case.get("dz"))
    map_unit = spatial
    if dx is not None:
        map_unit = dx.units
        dx = dx.to(spatial)
    dy = dx if dy is None else dy.to(spatial)
    dzq = None if dz is None else dz.to(spatial)
    obs = {"dx": None if dx is None else float(dx.magnitude), "dy": None if dy is None else float(dy.magnitude),
           "dz": None if dzq is None else float(dzq.magnitude),
           "scale": float((1.0 * spatial).to(map_unit).magnitude), "diag": float(np.sqrt(nd))}
    origin = origin_arg(osy, case)
    if origin is None:
        obs["origin"] = [0.0, 0.0, 0.0]
    else:
        o = origin.to(spatial) if hasattr(origin, "to") else origin
        obs["origin"] = [float(np.asarray(getattr(o, a).values)) if getattr(o, a) is not None else 0.0 for a in "xyz"]
    if nd < 3:
        obs.update(n=[0.0, 0.0, 0.0], u=[1.0, 0.0, 0.0], v=[0.0, 1.0, 0.0])
    else:
        if origin is None:
            origin = osy.Vector(0, 0, 0, unit=spatial)
        with contextlib.redirect_stdout(io.StringIO()), np.errstate(all="ignore"):
            b = get_direction(direction=direction_arg(osy, case), data=layers[0], dx=dx, dy=dy, origin=origin)
        for nm in "nuv":
            vec = getattr(b, nm)
            obs[nm] = [float(np.asarray(getattr(vec, a).values)) for a in "xyz"]
    return obs


# --------------------------------------------------------------------------------------------
# driver line
# --------------------------------------------------------------------------------------------
def res_xyz(case):
    res = case["res"]
    if isinstance(res, dict):
        return int(res.get("x", 256)), int(res.get("y", 256)), (int(res["z"]) if "z" in res else None)
    return int(res), int(res), None


def lean_line(case, obs, sel, order=None, spec=True):
    nx, ny, nz = res_xyz(case)
    layers = []
    for lay in case["layers"]:
        if lay["kind"] == "scalar":
            layers.append({"kind": "scalar", "vals": [None if v is None else fs(v) for v in lay["vals"]]})
        else:
            layers.append({"kind": "vector", "vals": [[fs(t) for t in w] for w in lay["vals"]]})
        if lay.get("op") is not None:
            layers[-1]["op"] = lay["op"]
    o = obs["origin"]
    return {"engine": "map", "ndim": case["ndim"], "den": case["den"], "centres": case["centres"], "sizes": case["sizes"],
            "layers": layers, "origin": [fs(t) for t in o], "u": [fs(t) for t in obs["u"]], "v": [fs(t) for t in obs["v"]],
            "n": [fs(t) for t in obs["n"]],
            "dx": None if obs["dx"] is None else fs(obs["dx"]), "dy": None if obs["dy"] is None else fs(obs["dy"]),
            "dz": None if obs["dz"] is None else fs(obs["dz"]),
            "nx": nx, "ny": ny, "nz": nz, "op": case.get("op") or "sum", "diag": fs(obs["diag"]),
            "slab": sel["slab"], "radial": sel["radial"], "depth": sel.get("depth", "coded"), "depth2d": sel.get("depth2d", "coded"), "scale": fs(obs["scale"]), "order": order,
            "eps": fstr(EPS), "spec": bool(spec)}


# --------------------------------------------------------------------------------------------
# lanes and comparison
# --------------------------------------------------------------------------------------------
def axis_aligned(obs):
    return all(all(t in (0.0, 1.0, -1.0) for t in obs[k]) for k in "nuv")


def lane_of(case, obs, ans):
    """'exact' when every floating operation of the call is exact: axis-aligned basis, dyadic
    origin / window, dx a power of two (the kernel divides by it), pixel counts that divide the
    window dyadically, scale ratio 1."""
    if not axis_aligned(obs) or obs["scale"] != 1.0:
        return "tol"
    if not all(is_dyadic(Fraction(t)) for t in obs["origin"]):
        return "tol"
    if "window" not in ans:
        return "exact" if "err" in ans else "tol"
    w = [Fraction(t) for t in ans["window"]]
    nx, ny, _ = res_xyz(case)
    if not is_pow2(w[1] - w[0]):
        return "tol"
    if not all(is_dyadic(t) for t in w):
        return "tol"
    if not (is_dyadic((w[1] - w[0]) / nx / 2) and is_dyadic((w[3] - w[2]) / ny / 2)):
        return "tol"
    if case.get("dz") is not None:
        if not is_dyadic(Fraction(ans["zsp"]) / 2):
            return "tol"
        if not is_dyadic(Fraction(obs["dz"])):
            return "tol"
    return "exact"


def eq_exact(a, m):
    """impl float `a` against the exact rational `m` (a single correctly rounded division is allowed)"""
    if isinstance(a, str) or a is None:
        return False
    if math.isinf(a):
        return False
    return Fraction(a) == m or a == float(m)


def eq_tol(a, m, scale):
    if isinstance(a, str) or a is None:
        return False
    mf = float(m)
    return abs(a - mf) <= 1e-9 * max(abs(a), abs(mf)) + 1e-9 * scale


def binned_of(impl, ans):
    """impl layers -> list of binned component lists, in the order of the model's binned layers"""
    out = []
    for lay in impl["layers"]:
        out.extend(lay["comps"])
    return out


def layer_scales(case):
    sc = []
    for lay in case["layers"]:
        if lay["kind"] == "scalar":
            sc.append(max([abs(v) for v in lay["vals"] if v is not None] or [1.0]))
        else:
            m = max(math.sqrt(sum(t * t for t in w)) for w in lay["vals"]) or 1.0
            sc.extend([m, m, m])
    return sc


def mag_slots(ans):
    """indices of binned layers that hold an in-plane magnitude"""
    return {s[0] + 2 for s in ans["slots"] if not s[1]}


def accumulates(case, nz, op):
    """a depth reduction that adds more than two samples of values that are not small dyadic numbers: numpy adds them one
    after the other along the depth axis, so the result carries rounding errors even when every coordinate is exact"""
    return (case.get("dz") is not None and nz is not None and nz > 2 and op in ("sum", "mean", "nansum", "nanmean")
            and not (case.get("gen") or {}).get("exact_wanted", False))


def compare_model(case, obs, impl, ans, lane, skip_near=True):
    """impl vs model as coded. Returns (difference or None, number of near-tie pixels skipped)."""
    if "raised" in impl or "err" in ans:
        if ("raised" in impl) != ("err" in ans):
            return (f"impl {'raised ' + impl['raised'] + ': ' + impl.get('msg', '') if 'raised' in impl else 'returned a map'}, "
                    f"model {ans.get('err', 'returns a map')}"), 0
        return None, 0
    exact = lane == "exact"
    span = max(abs(Fraction(t)) for t in ans["window"]) * Fraction(obs["scale"])
    for axn in "xy":
        got, want = impl[axn], [Fraction(t) for t in ans[axn]]
        if len(got) != len(want):
            return f"{len(got)} pixel centres along {axn}, model {len(want)}", 0
        for i, (a, m) in enumerate(zip(got, want)):
            ok = eq_exact(a, m) if exact else eq_tol(a, m, float(span))
            if not ok:
                return f"pixel centre {axn}[{i}] = {a!r}, model {float(m)!r}", 0
    comps = binned_of(impl, ans)
    if len(comps) != len(ans["binned"]):
        return f"{len(comps)} binned layers, model {len(ans['binned'])}", 0
    mags = mag_slots(ans)
    scales = layer_scales(case)
    upw = ans.get("unitPowers") or [ans.get("unitPower")] * len(ans["binned"])
    zfacs = [float(Fraction(ans["zsp"])) * ans["nz"] if pw else 1.0 for pw in upw]
    near = ans.get("modelNear") or ans.get("spec", {}).get("near") or []
    skipped = 0
    for l, (got, want) in enumerate(zip(comps, ans["binned"])):
        if len(got) != len(want):
            return f"binned layer {l}: {len(got)} pixels, model {len(want)}", 0
        for pix, (a, m) in enumerate(zip(got, want)):
            masked = ans["mask"][pix]
            if not exact and skip_near and pix < len(near) and near[pix]:
                skipped += 1
                continue
            if (a is None) != masked:
                return f"layer {l} pixel {pix} (j={pix // len(impl['x'])}, i={pix % len(impl['x'])}): impl {'masked' if a is None else a}, model {'masked' if masked else m}", skipped
            if masked:
                continue
            if m is None:
                if a != "nan":
                    return f"layer {l} pixel {pix}: impl {a}, model NaN (unmasked)", skipped
                continue
            mf = Fraction(m)
            rop = (row_ops(case)[l] if l < len(row_ops(case)) else (case.get("op") or "sum"))
            loose = (not exact) or (l in mags and not ans.get("magsExact")) or accumulates(case, ans.get("nz"), rop)
            ok = eq_tol(a, mf, scales[l] * zfacs[l]) if loose else eq_exact(a, mf)
            if not ok:
                return f"layer {l} pixel {pix} (j={pix // len(impl['x'])}, i={pix % len(impl['x'])}): impl {a!r}, model {float(mf)!r}", skipped
    # units (7): per layer (a layer's rows share its operation)
    for li, (lay, slot) in enumerate(zip(impl["layers"], ans["slots"])):
        want = upw[slot[0]] if slot[0] < len(upw) else ans["unitPower"]
        if lay["unit_power"] != want:
            return f"layer {li}: unit {lay['unit']} = layer unit x length^{lay['unit_power']}, model length^{want}", skipped
    return None, skipped


def compare_spec(case, obs, impl, ans, lane):
    """impl vs Spec. Returns (list of violation dicts (pixel level), near-tie pixels skipped).
    Zero thickness / one depth sample: the value must be the value of a containing cell, masked iff
    there is none. Several samples: the value must lie between the reductions of the per-sample
    minimum and maximum over the containing cells (equal unless a sample lies on a face)."""
    spec = ans.get("spec") or {}
    if "err" in spec or not spec:
        return [], 0
    if "raised" in impl:
        return [{"pix": None, "what": f"impl raised {impl['raised']}: {impl.get('msg', '')}", "kind": "raised"}], 0
    exact = lane == "exact"
    comps = binned_of(impl, ans)
    nx = len(impl["x"])
    npx = len(spec["near"])
    scales = layer_scales(case)
    mags = mag_slots(ans)
    nz = spec["nz"]
    thick = case.get("dz") is not None
    rops = row_ops(case)
    mixed = any(l.get("op") for l in case["layers"])
    out, skipped = [], 0
    cellvals = spec["cellvals"]
    for pix in range(npx):
        if spec["near"][pix] and not exact:
            skipped += 1
            continue
        for l, got in enumerate(comps):
            if pix >= len(got):
                return [{"pix": None, "what": f"layer {l} has {len(got)} pixels, expected {npx}", "kind": "shape"}], skipped
            a = got[pix]
            op = rops[l] if l < len(rops) else (case.get("op") or "sum")
            zfac = float(Fraction(spec["zsp"])) * nz if (thick and op in ("sum", "nansum")) else 1.0
            loose = (not exact) or (l in mags and not ans.get("magsExact")) or accumulates(case, nz, op)
            if nz == 1 and not (thick and op in ("sum", "nansum", "nanmean", "mean")):
                acc = spec["accept"][pix]
                if not acc:
                    if a is not None and not (op == "nansum" and a == 0.0) and not (mixed and a == "nan"):
                        # (layers with different reductions share one mask, taken with the last layer's reduction: where that
                        # one never yields NaN, an uncovered pixel of another layer shows its NaN unmasked)
                        out.append({"pix": pix, "layer": l, "kind": "value_without_cell",
                                    "what": f"no loaded cell contains the sample point, impl shows {a}"})
                        break
                    continue
                if a is None:
                    out.append({"pix": pix, "layer": l, "kind": "masked_with_cell", "cells": acc,
                                "what": f"masked, but cell(s) {acc} contain the sample point (value {cellvals[acc[0]][l]})"})
                    break
                want = [cellvals[c][l] for c in acc]
                ok = False
                for m in want:
                    if m is None:
                        ok = ok or a == "nan"
                    else:
                        ok = ok or (eq_tol(a, Fraction(m), scales[l]) if loose else eq_exact(a, Fraction(m)))
                if not ok:
                    out.append({"pix": pix, "layer": l, "kind": "wrong_value", "cells": acc,
                                "what": f"impl {a}, containing cell(s) {acc} have {[None if m is None else float(Fraction(m)) for m in want]}"})
                    break
            else:
                if spec.get("ambig", [False] * npx)[pix] and any(cv[l] is None for cv in cellvals):
                    # a sample of this column lies on a face and cells of this layer hold NaN: the column may or may not have
                    # taken the NaN-valued neighbour; the per-sample bounds ignore missing candidates, so nothing is asserted
                    skipped += 1
                    break
                lo, hi = spec["lo"][l][pix], spec["hi"][l][pix]
                if lo is None or hi is None:
                    if a is not None and a != "nan":
                        out.append({"pix": pix, "layer": l, "kind": "value_for_missing_column", "cells": spec["accept"][pix],
                                    "what": f"the reduction of the sampled column is missing (NaN), impl shows {a}"})
                        break
                    continue
                if a is None and mixed and (spec["lo"][-1][pix] is None or spec["hi"][-1][pix] is None):
                    # layers with different reductions share one mask (NaN of the last binned row): the last row's column
                    # is missing here, the masked array hides this row's value
                    continue
                if a is None or a == "nan":
                    out.append({"pix": pix, "layer": l, "kind": "masked_with_column", "cells": spec["accept"][pix],
                                "what": f"impl {'masked' if a is None else 'NaN'}, the reduction of the sampled column is {float(Fraction(lo))}"})
                    break
                lo, hi = Fraction(lo), Fraction(hi)
                if lo == hi:
                    ok = eq_tol(a, lo, scales[l] * zfac) if loose else eq_exact(a, lo)
                else:
                    tol = 1e-9 * scales[l] * zfac if loose else 0.0
                    ok = float(lo) - tol <= a <= float(hi) + tol
                if not ok:
                    out.append({"pix": pix, "layer": l, "kind": "wrong_column_value", "cells": spec["accept"][pix],
                                "what": f"impl {a!r}, reduction of the sampled column {float(lo)!r}" + ("" if lo == hi else f" .. {float(hi)!r}")})
                    break
    # unit of the result (7)
    for li, lay in enumerate(impl["layers"]):
        lop = case["layers"][li].get("op") or case.get("op") or "sum"
        want_pw = 1 if (thick and lop in ("sum", "nansum")) else 0
        if lay["unit_power"] != want_pw:
            out.append({"pix": None, "layer": li, "kind": "unit",
                        "what": f"layer unit {lay['unit']} is the layer unit x length^{lay['unit_power']}, expected length^{want_pw}"})
            break
    return out, skipped


FLAG_CLASS = {"depth": "thick_dx_omitted_depth_range_from_data", "depth2d": "thick_map_of_2d_data_depth_footprint", "slab": "slab_thinner_than_cell",
              "radial": "radial_preselection_drops_big_cell"}


def model_as_impl(ans):
    """the model's answer in the shape of `run_impl`'s (values as floats), for `compare_spec`"""
    comps = [[None if mk else ("nan" if v is None else float(Fraction(v))) for v, mk in zip(layer, ans["mask"])] for layer in ans["binned"]]
    layers, k = [], 0
    for first, is_scalar in ans["slots"]:
        w = 1 if is_scalar else 3
        upw = ans.get("unitPowers") or []
        layers.append({"kind": "scalar" if is_scalar else "vector", "comps": comps[first:first + w],
                       "unit_power": upw[first] if first < len(upw) else ans["unitPower"], "unit": "model"})
        k += w
    return {"x": [float(Fraction(t)) for t in ans["x"]], "y": [float(Fraction(t)) for t in ans["y"]], "layers": layers}


def classify_violations(case, obs, sel, ans, viols):
    """input class of every pixel-level Spec violation: which formula of the code, replaced by its sound
    form in the model, makes the model satisfy the Spec at that pixel. Returns {class: first violation}."""
    out = {}
    rest = []
    for v in viols:
        if v["kind"] in ("raised", "shape", "unit"):
            out.setdefault({"raised": "call_raises", "shape": "output_shape", "unit": "result_unit"}[v["kind"]], v)
        else:
            rest.append(v)
    if not rest:
        return out
    coded = [k for k in ("depth", "depth2d", "slab", "radial") if sel.get(k, "coded") == "coded"]
    if case.get("dz") is None:
        coded = [k for k in coded if k in ("radial", "depth")]
    if case.get("dx") is not None:
        coded = [k for k in coded if k != "depth"]
    else:
        coded = [k for k in coded if k != "radial"]
    if case["ndim"] == 3:
        coded = [k for k in coded if k != "depth2d"]
    else:
        coded = [k for k in coded if k != "slab"]
    combos = [[k] for k in coded] + [[a, b] for i, a in enumerate(coded) for b in coded[i + 1:]] + ([coded] if len(coded) > 2 else [])
    variants = []
    # without dx the window is the extent of the selected cells: a variant has its own pixel grid and
    # is judged as a whole against its own Spec; with dx the pixel grids coincide: judged pixel by pixel
    own = case.get("dx") is None
    if combos:
        lines = [lean_line(case, obs, dict(sel, **{k: "sound" for k in cb}), spec=own) for cb in combos]
        for cb, a in zip(combos, run_map(lines)):
            bad = None
            if "err" not in a:
                vv, _ = compare_spec(case, obs, model_as_impl(a), a if own else dict(a, spec=ans["spec"]), "tol")
                bad = {x["pix"] for x in vv}
            variants.append((cb, bad))
    for v in rest:
        cls = None
        for cb, bad in variants:
            if bad is not None and (not bad if own else v["pix"] not in bad):
                cls = FLAG_CLASS[cb[0]]
                if cb[0] == "depth" and case.get("dz") is None:
                    cls = "dx_omitted_depth_step_from_data"
                break
        if cls is None:
            cls = {"masked_with_cell": "cell_lost_after_preselection", "wrong_value": "wrong_cell_value",
                   "value_without_cell": "value_where_no_cell"}.get(v["kind"], "thick_" + v["kind"])
        out.setdefault(cls, v)
    return out


def describe(case):
    d = case["direction"]
    dirs = d.get("s") or ("Vector" + str(tuple(d.get("v", []))))
    win = " ".join(f"{k}={case[k]['v']} {case[k]['unit']}" for k in ("dx", "dy", "dz") if case.get(k) is not None) or "dx omitted"
    return (f"{case['ndim']}-D mesh of {len(case['sizes'])} cells ({case['mesh_info']}), direction {dirs!r}, origin {case.get('origin')}{(' ' + case['origin_unit']) if case.get('origin_unit') else ''}, "
            f"{win}, resolution {case['res']}, operation {case.get('op') or 'sum'}, layers {[l['key'] + ('(operation=' + l['op'] + ')' if l.get('op') else '') for l in case['layers']]}")


def small_case(case, limit=60):
    """a copy fit for the evidence file"""
    if len(case["sizes"]) <= limit:
        return case
    c = dict(case)
    c["truncated_from"] = len(case["sizes"])
    c["centres"] = case["centres"][:limit]
    c["sizes"] = case["sizes"][:limit]
    c["layers"] = [dict(l, vals=l["vals"][:limit]) for l in case["layers"]]
    return c


def prune_case(case, keep):
    """the case restricted to the cells `keep` (indices)"""
    keep = sorted(set(keep))
    c = dict(case)
    c["centres"] = [case["centres"][i] for i in keep]
    c["sizes"] = [case["sizes"][i] for i in keep]
    c["layers"] = [dict(l, vals=[l["vals"][i] for i in keep]) for l in case["layers"]]
    c["mesh_info"] = case.get("mesh_info", "") + f", pruned to {len(keep)} cells"
    return c
