"""C18 Every accepted map orientation yields an orthonormal, correctly oriented basis.

Real implementation: `osyris.plot.direction.get_direction` and `osyris.core.vector.VectorBasis`
(constructor and `roll`).  Lean side: OsyrisModel/Basis.lean through the "basis" engine.
The model is exact and unnormalised; execution compares *directions*:
  * Spec (violations): |n|,|u|,|v| within 1e-12 of 1, pairwise dot products <= 1e-12, n a positive
    multiple of the requested normal (axis / Vector / given basis / L for 'top'), u x v = n when only
    the normal is given, L . n = 0 and v parallel to L for 'side'
  * model-as-coded (disagreements): n, u, v positive multiples of the model's rational vectors."""
import contextlib
import io
import json
import math
from fractions import Fraction

import numpy as np

from ..framework import Outcome, case_hash
from .c05_geom import driver_kind, run_geom  # noqa: F401  (run_geom re-exported)

TRUSTED = [
    "IEEE-754 overflow/underflow is outside the theorems (exact arithmetic): the harness explores components from 1e-300 to 1e300 and reports what it finds",
    "numpy sqrt / sum in `normalize` and in the angular momentum sum",
]
ASSUMPTIONS = [
    "non-zero normal; for VectorBasis(n, u) the caller supplies u perpendicular to n (docstring of get_direction); for 'top'/'side' non-zero net angular momentum inside the sphere",
    "strings other than x, y, z, the six three-letter orders (any case), top and side are not accepted orientations: impl is compared with the model as coded only",
    "ratio between the largest and smallest non-zero component of a normal at most 1e300",
]

TOL_UNIT = 1e-12
TOL_DIR = 1e-9


# --------------------------------------------------------------------------------------------
# rationals <-> floats
# --------------------------------------------------------------------------------------------
def fs(v):
    f = Fraction(float(v))
    return str(f.numerator) if f.denominator == 1 else f"{f.numerator}/{f.denominator}"


def v3s(v):
    return [fs(c) for c in v]


def unit_of(fr):
    """float unit vector of an exact rational vector (any magnitude); None for the zero vector"""
    fr = [Fraction(c) for c in fr]
    m = max(abs(c) for c in fr)
    if m == 0:
        return None
    w = [float(c / m) for c in fr]
    s = math.sqrt(sum(c * c for c in w))
    return [c / s for c in w]


def dot(a, b):
    return sum(x * y for x, y in zip(a, b))


def cross(a, b):
    return [a[1] * b[2] - a[2] * b[1], a[2] * b[0] - a[0] * b[2], a[0] * b[1] - a[1] * b[0]]


def dir_err(impl, fr):
    """how far the implementation's vector is from the unit vector along `fr`"""
    w = unit_of(fr)
    if w is None:
        return 0.0 if all(c == 0 for c in impl) else float("inf")
    if any(not math.isfinite(c) for c in impl):
        return float("inf")
    return max(abs(a - b) for a, b in zip(impl, w))


# --------------------------------------------------------------------------------------------
# the real implementation
# --------------------------------------------------------------------------------------------
def vec_of(osy, v, unit=""):
    if all(isinstance(c, int) and abs(c) >= 2 ** 53 for c in v if c != 0) and any(c != 0 for c in v) and all(isinstance(c, int) for c in v):
        # integer normals beyond 2^53 stay integers (int64 components): sums of two components may exceed 2^63
        return osy.Vector(int(v[0]), int(v[1]), int(v[2]), unit=unit or None)
    return osy.Vector(float(v[0]), float(v[1]), float(v[2]), unit=unit or None)


def comps(vec):
    return [float(np.asarray(c.values)) for c in (vec.x, vec.y, vec.z)]


def basis_out(b):
    if b is None:
        return {"out": "none"}
    return {"out": "basis", "n": comps(b.n), "u": comps(b.u), "v": comps(b.v)}


def run_impl(osy, case):
    from osyris.core.vector import VectorBasis
    from osyris.plot.direction import get_direction

    k = case["kind"]
    try:
        with contextlib.redirect_stdout(io.StringIO()), np.errstate(all="ignore"):
            if k == "str":
                return basis_out(get_direction(case["s"]))
            if k == "vec":
                return basis_out(get_direction(vec_of(osy, case["v"], case.get("unit", ""))))
            if k == "basis":      # a VectorBasis object built by the library itself, handed back to get_direction
                vb = VectorBasis(n=vec_of(osy, case["n"], case.get("unit", "")))
                if case.get("rolled"):
                    vb = vb.roll()
                inp = {"n": comps(vb.n), "u": comps(vb.u), "v": comps(vb.v)}
                r = basis_out(get_direction(vb))
                r["input"] = inp
                return r
            if k == "nu":
                return basis_out(VectorBasis(n=vec_of(osy, case["n"], case.get("unit", "")), u=vec_of(osy, case["u"], case.get("unit", ""))))
            if k == "roll":
                return basis_out(VectorBasis(n=vec_of(osy, case["n"], case.get("unit", ""))).roll())
            if k == "other":
                val = {"list": [1, 0, 0], "none": None, "number": 3, "tuple": (0, 0, 1)}[case["value"]]
                return basis_out(get_direction(val))
            if k == "cloud":
                u = case.get("unit", "cm")
                pos = np.array(case["pos"], dtype=np.float64).reshape(-1, 3)
                vel = np.array(case["vel"], dtype=np.float64).reshape(-1, 3)
                data = {"position": osy.Vector(pos[:, 0], pos[:, 1], pos[:, 2], unit=u),
                        "velocity": osy.Vector(vel[:, 0], vel[:, 1], vel[:, 2], unit="cm/s"),
                        "mass": osy.Array(np.array(case["mass"], dtype=np.float64), unit="g")}
                kw = {}
                if case.get("win") is not None:
                    kw["dx"] = float(case["win"][0]) * osy.units(u)
                    kw["dy"] = float(case["win"][1]) * osy.units(u)
                if case.get("origin") is not None:
                    kw["origin"] = vec_of(osy, case["origin"], u)
                return basis_out(get_direction(case["s"], data=data if not case.get("no_data") else None, **kw))
    except ValueError as e:
        return {"out": "valueErr", "msg": str(e)[:120]}
    except Exception as e:  # noqa: BLE001
        return {"out": "fails", "raised": type(e).__name__, "msg": str(e)[:120]}
    raise RuntimeError("unknown case kind " + k)


def lean_line(case, impl):
    k = case["kind"]
    line = {"engine": "basis", "mode": "model"}
    if k == "str":
        line["dir"] = {"kind": "str", "s": case["s"]}
    elif k == "vec":
        line["dir"] = {"kind": "vec", "v": v3s(case["v"])}
    elif k == "basis":
        inp = impl.get("input") or {"n": case["n"], "u": [0, 0, 0], "v": [0, 0, 0]}
        line["dir"] = {"kind": "basis", "n": v3s(inp["n"]), "u": v3s(inp["u"]), "v": v3s(inp["v"])}
    elif k == "nu":
        line["dir"] = {"kind": "nu", "n": v3s(case["n"]), "u": v3s(case["u"])}
    elif k == "roll":
        line["dir"] = {"kind": "roll", "n": v3s(case["n"])}
    elif k == "other":
        line["dir"] = {"kind": "other"}
    elif k == "cloud":
        line["dir"] = {"kind": "str", "s": case["s"]}
        if not case.get("no_data"):
            line["cloud"] = {"pos": [v3s(p) for p in case["pos"]], "vel": [v3s(p) for p in case["vel"]],
                             "mass": [fs(m) for m in case["mass"]]}
        line["win"] = None if case.get("win") is None else [fs(c) for c in case["win"]]
        line["origin"] = None if case.get("origin") is None else v3s(case["origin"])
    return line


# --------------------------------------------------------------------------------------------
# checks
# --------------------------------------------------------------------------------------------
def orthonormal_defect(b):
    """first way in which (n,u,v) fails to be orthonormal within 1e-12, or None"""
    for name in ("n", "u", "v"):
        w = b[name]
        if any(not math.isfinite(c) for c in w):
            return f"{name} = {w} is not finite"
        nr = math.hypot(*w)
        if abs(nr - 1) > TOL_UNIT:
            return f"|{name}| = {nr!r} (vector {w})"
    for a, c in (("n", "u"), ("n", "v"), ("u", "v")):
        d = dot(b[a], b[c])
        if abs(d) > TOL_UNIT:
            return f"{a}.{c} = {d!r}"
    return None


def requested_normal(case, ans, impl=None):
    k = case["kind"]
    if k == "vec":
        return v3s(case["v"])
    if k == "basis":        # the normal of the VectorBasis object that was handed in
        return v3s((impl or {}).get("input", {}).get("n", case["n"]))
    if k == "nu":
        return v3s(case["n"])
    if k == "str":
        return {"x": ["1", "0", "0"], "y": ["0", "1", "0"], "z": ["0", "0", "1"]}[case["s"].lower()[0]]
    if k == "cloud" and case["s"].lower() == "top":
        return ans.get("L")
    return None


def in_claim(case, ans):
    """is the input inside the property's quantifier?"""
    k = case["kind"]
    if k == "str":
        s = case["s"].lower()
        return s in ("x", "y", "z") or (len(s) == 3 and set(s) == set("xyz"))
    if k in ("vec", "basis", "roll"):
        v = case["v"] if k == "vec" else case["n"]
        return any(float(c) != 0 for c in v)
    if k == "nu":
        n, u = [Fraction(float(c)) for c in case["n"]], [Fraction(float(c)) for c in case["u"]]
        return any(n) and any(u) and sum(a * b for a, b in zip(n, u)) == 0
    if k == "cloud":
        L = ans.get("L")
        return (not case.get("no_data")) and L is not None and any(Fraction(c) != 0 for c in L)
    return False


def spec_violation(case, impl, ans):
    """impl vs Spec. Returns text or None."""
    if impl.get("out") != "basis":
        return f"no basis returned ({impl})"
    d = orthonormal_defect(impl)
    if d:
        return "not orthonormal: " + d
    k = case["kind"]
    want = requested_normal(case, ans, impl)
    if want is not None and k != "roll":
        e = dir_err(impl["n"], want)
        if e > TOL_DIR:
            return f"n = {impl['n']} is not along the requested normal {[float(Fraction(c)) for c in want]} (off by {e:.3g})"
    if k in ("vec", "nu") or (k == "cloud" and case["s"].lower() == "top"):
        uxv = cross(impl["u"], impl["v"])
        if max(abs(a - b) for a, b in zip(uxv, impl["n"])) > 1e-9:
            return f"u x v = {uxv} is not n = {impl['n']} (not right-handed)"
    if k == "nu":
        e = dir_err(impl["u"], v3s(case["u"]))
        if e > TOL_DIR:
            return f"u = {impl['u']} is not along the given u (off by {e:.3g})"
    if k == "roll":
        # n of the rolled basis must be perpendicular to the original normal, which becomes v
        e = dir_err(impl["v"], v3s(case["n"]))
        if e > TOL_DIR:
            return f"rolled v = {impl['v']} is not along the original normal"
    if k == "cloud" and case["s"].lower() == "side":
        Lu = unit_of(ans["L"])
        if abs(dot(Lu, impl["n"])) > TOL_DIR:
            return f"L.n' = {dot(Lu, impl['n'])!r}: the angular momentum is not in the image plane"
        e = dir_err(impl["v"], ans["L"])
        if e > TOL_DIR:
            return f"v' = {impl['v']} is not along L (off by {e:.3g})"
    return None


def model_difference(impl, ans):
    """impl vs model as coded (directions)."""
    if impl.get("out") != ans.get("out"):
        return f"impl {impl.get('out')} ({impl.get('raised', '')}), model {ans.get('out')}"
    if ans.get("out") != "basis":
        return None
    for name in ("n", "u", "v"):
        e = dir_err(impl[name], ans[name])
        if e > TOL_DIR:
            w = unit_of(ans[name])
            return f"{name}: impl {impl[name]} vs model direction {w} (off by {e:.3g})"
    return None


def input_class(case):
    """class of the input, from the input alone"""
    k = case["kind"]
    if k == "str":
        return "letters" if len(case["s"]) == 1 else "triple"
    if k == "cloud":
        return case["s"].lower()
    if k == "other":
        return "other_type"
    v = [abs(float(c)) for c in (case["v"] if k == "vec" else case["n"])]
    nz = [c for c in v if c != 0]
    if not nz:
        return "zero_vector"
    # magnitude bands: |n x u| ~ |n|^2 is squared again by `normalize`, so fourth powers must stay in range
    mx = max(nz)
    if mx >= 1e75:
        return "overflow_large_components"
    if mx <= 1e-75:
        return "underflow_small_norm"
    raw = [float(c) for c in (case["v"] if k == "vec" else case["n"])]
    if min(nz) / mx <= 1e-75:
        return "underflow_tiny_component"
    if len(nz) == 1:
        return "axis_aligned"
    if raw[2] == 0:
        return "z_zero"
    if raw[0] + raw[1] == 0:
        return "x_plus_y_zero"
    return "generic"


# --------------------------------------------------------------------------------------------
# generators
# --------------------------------------------------------------------------------------------
def all_case_variants(s):
    out = [""]
    for ch in s:
        out = [o + c for o in out for c in (ch.lower(), ch.upper())]
    return out


def base_normals(r, n):
    out = [[1, 0, 0], [0, 1, 0], [0, 0, 1], [-1, 0, 0], [0, -2, 0], [0, 0, -3],      # axis aligned
           [1, 2, 0], [-3, 1, 0], [1, -1, 0], [0, 5, 0],                                # z = 0
           [1, -1, 3], [2, -2, -1], [-4, 4, 7], [0.5, -0.5, 0.25],                      # x + y = 0
           [1, 1, 1], [1, 2, 2], [-1, -2, -3], [3, 0, 4], [0, 3, -4]]
    for _ in range(n):
        t = r.random()
        if t < 0.4:
            out.append([r.randint(-9, 9) for _ in range(3)])
        elif t < 0.7:
            out.append([r.uniform(-1, 1) for _ in range(3)])
        elif t < 0.85:
            a = r.uniform(-5, 5)
            out.append([a, -a, r.uniform(-5, 5)])
        else:
            out.append([r.uniform(-5, 5), r.uniform(-5, 5), 0.0])
    return [v for v in out if any(c != 0 for c in v)]


def gen_cases(ctx):
    r = ctx.rng
    thorough = ctx.tier == "thorough"
    cases = []
    # --- every accepted string form, plus strings outside the table
    for s in ("x", "y", "z"):
        for t in all_case_variants(s):
            cases.append({"kind": "str", "s": t, "tags": ["str", "letter"]})
    for p in ("xyz", "xzy", "yxz", "yzx", "zxy", "zyx"):
        for t in all_case_variants(p):
            cases.append({"kind": "str", "s": t, "tags": ["str", "triple"]})
    for s in ("w", "", "xx", "xyzz", "xxyz", "zzyx", "topp", "xy", "a b"):
        cases.append({"kind": "str", "s": s, "tags": ["str", "malformed"]})
    for val in ("list", "none", "number", "tuple"):
        cases.append({"kind": "other", "value": val, "tags": ["other"]})
    cases.append({"kind": "cloud", "s": "top", "no_data": True, "pos": [], "vel": [], "mass": [], "win": None, "origin": None,
                  "tags": ["cloud", "no_data"]})
    # --- normal vectors
    normals = base_normals(r, 60 if not thorough else 1500)
    units = ["", "cm", "au", "m"]
    for v in normals:
        cases.append({"kind": "vec", "v": v, "unit": r.choice(units), "tags": ["vec", "base"]})
    ks = [1, 2, 5, 10, 50, 100, 140, 150, 153, 154, 155, 160, 170, 200, 250, 300]
    for v in normals[: (25 if not thorough else 300)]:
        for k in (ks if thorough else r.sample(ks, 6)):
            for sgn in (1, -1):
                w = [c * 10.0 ** (sgn * k) for c in v]
                if all(math.isfinite(c) for c in w) and any(c != 0 for c in w):
                    cases.append({"kind": "vec", "v": w, "unit": r.choice(units), "tags": ["vec", f"scaled_1e{sgn * k}"]})
    # one tiny / one huge component
    for v in normals[: (25 if not thorough else 300)]:
        i = r.randint(0, 2)
        for k in (r.sample(ks, 4) if not thorough else ks):
            w = list(v)
            if w[i] == 0:
                w[i] = 1.0
            w[i] = w[i] * 10.0 ** (-k)
            cases.append({"kind": "vec", "v": w, "unit": "", "tags": ["vec", f"tiny_component_{'xyz'[i]}_1e-{k}"]})
    cases.append({"kind": "vec", "v": [1.0, 1.0, 1e-200], "unit": "", "tags": ["vec", "witness_tiny_z"]})
    cases.append({"kind": "vec", "v": [1e-170, 2e-170, 3e-170], "unit": "", "tags": ["vec", "witness_small_norm"]})
    cases.append({"kind": "vec", "v": [1e200, 1e200, 1e200], "unit": "", "tags": ["vec", "witness_large_norm"]})
    cases.append({"kind": "vec", "v": [0.0, 0.0, 0.0], "unit": "", "tags": ["vec", "zero"]})
    # integer normals with components close to the int64 range (the sum of two components does not fit)
    big = [[3 * 2 ** 61] * 3, [2 ** 62, 2 ** 62, 2 ** 60], [2 ** 62, 2 ** 62 - 2 ** 55, -(2 ** 61)], [-(2 ** 62), -(2 ** 62), 2 ** 61],
           [2 ** 62, 2 ** 61 + 2 ** 60, 0], [5 * 2 ** 60, 7 * 2 ** 60, 2 ** 59]]
    for v in big:
        cases.append({"kind": "vec", "v": v, "unit": r.choice(units), "tags": ["vec", "int64_near_overflow"]})
        cases.append({"kind": "roll", "n": v, "unit": "", "tags": ["ctor", "roll_int64_near_overflow"]})
    # --- VectorBasis objects and the constructor
    for v in normals[: (30 if not thorough else 400)]:
        cases.append({"kind": "basis", "n": v, "rolled": False, "unit": "", "tags": ["basis", "object"]})
        cases.append({"kind": "basis", "n": v, "rolled": True, "unit": "", "tags": ["basis", "rolled_object"]})
        cases.append({"kind": "roll", "n": v, "unit": r.choice(units), "tags": ["ctor", "roll"]})
    for v in normals[: (12 if not thorough else 120)]:
        for k in r.sample(ks, 3):
            for sgn in (1, -1):
                w = [c * 10.0 ** (sgn * k) for c in v]
                if all(math.isfinite(c) for c in w) and any(c != 0 for c in w):
                    cases.append({"kind": "roll", "n": w, "unit": "", "tags": ["ctor", f"roll_scaled_1e{sgn * k}"]})
    for _ in range(40 if not thorough else 600):
        n = [r.randint(-6, 6) for _ in range(3)]
        a = [r.randint(-6, 6) for _ in range(3)]
        u = cross(n, a)                       # integer vector perpendicular to n
        if any(n) and any(u):
            s = 2.0 ** r.randint(-3, 3)
            cases.append({"kind": "nu", "n": n, "u": [c * s for c in u], "unit": "", "tags": ["ctor", "n_u"]})
    # --- top / side
    for _ in range(60 if not thorough else 1200):
        npart = r.choice([1, 2, 3, 5, 12, 40])
        lane = r.choice(["exact", "exact", "float"])
        if lane == "exact":
            pos = [[r.randint(-12, 12) / 4 for _ in range(3)] for _ in range(npart)]
            vel = [[r.randint(-8, 8) / 2 for _ in range(3)] for _ in range(npart)]
            mass = [float(r.randint(1, 9)) for _ in range(npart)]
        else:
            axis = [r.uniform(-1, 1) for _ in range(3)]
            pos = [[r.uniform(-3, 3) for _ in range(3)] for _ in range(npart)]
            vel = [[a + 0.2 * r.uniform(-1, 1) for a in cross(axis, p)] for p in pos]     # rotation about `axis` plus noise
            mass = [r.uniform(0.5, 5) for _ in range(npart)]
        win = r.choice([None, [4.0, 4.0], [6.0, 2.0], [1.0, 1.0], [16.0, 12.0]])
        origin = r.choice([None, None, [0.5, -0.25, 0.0], [1.0, 1.0, 1.0]])
        s = r.choice(["top", "side", "Top", "SIDE", "toP", "siDe"])
        cases.append({"kind": "cloud", "s": s, "pos": pos, "vel": vel, "mass": mass, "win": win, "origin": origin,
                      "unit": r.choice(["cm", "au"]), "lane": lane, "tags": ["cloud", s.lower(), lane, "win" if win else "extent"]})
    return cases


# --------------------------------------------------------------------------------------------
def run(ctx):
    osy = ctx.osyris
    out = Outcome()
    out.extra["geometry_driver"] = driver_kind()
    cases = gen_cases(ctx)
    impls = [run_impl(osy, c) for c in cases]
    answers = run_geom([lean_line(c, i) for c, i in zip(cases, impls)])
    dist, seen, vcount = {}, {}, {}
    outside = 0
    for c, impl, ans in zip(cases, impls, answers):
        out.evaluations += 1
        if ans.get("err") == "bad-op":
            raise RuntimeError("driver rejected a case: " + json.dumps(c)[:300])
        cls = input_class(c)
        key = ":".join(c["tags"][:2]) + "|" + cls
        dist[key] = dist.get(key, 0) + 1
        out.compared += 1
        claim = in_claim(c, ans)
        if claim and cls not in ("letters",):
            out.nontrivial.add(case_hash({k: v for k, v in c.items() if k != "tags"}))
        if len(out.samples) < 5 and c["kind"] in ("vec", "cloud", "str") and (c["kind"] != "str" or len(out.samples) < 1):
            out.samples.append({"case": c if c["kind"] != "cloud" or len(c["pos"]) <= 3 else dict(c, pos=c["pos"][:3], vel=c["vel"][:3], mass=c["mass"][:3], truncated=True),
                                "impl": impl, "model": ans})
        viol = None
        if claim:
            if c["kind"] == "cloud" and c.get("lane") == "float":
                # skip near-cancelling angular momentum in the float lane
                L = [float(Fraction(x)) for x in ans["L"]]
                scale = sum(abs(m) * math.sqrt(dot(p, p) * dot(v, v)) for m, p, v in zip(c["mass"], c["pos"], c["vel"]))
                if math.sqrt(dot(L, L)) < 1e-6 * max(scale, 1e-300):
                    out.near_tie_skipped += 1
                    continue
            viol = spec_violation(c, impl, ans)
        else:
            outside += 1
        if viol:
            site = "plot.direction.get_direction" if c["kind"] in ("str", "vec", "basis", "cloud", "other") else "core.vector.VectorBasis"
            sig = (site, cls)
            vcount[f"{site}|{cls}"] = vcount.get(f"{site}|{cls}", 0) + 1
            if seen.get(sig, 0) < 3:
                seen[sig] = seen.get(sig, 0) + 1
                out.violations.append({"what": f"{site}({describe(c)}): {viol}", "case": c, "actual": impl,
                                       "expected": {"model_unnormalised": {k: ans.get(k) for k in ("n", "u", "v", "L") if k in ans}},
                                       "call_site": site, "input_class": cls})
            continue            # the exact model cannot reproduce a float failure: the Spec verdict stands for this input
        d = model_difference(impl, ans)
        if d:
            out.disagreements.append((c, d))
    out.extra["violation_counts"] = vcount
    out.extra["outside_claim"] = outside
    out.distribution = dict(sorted(dist.items()))
    out.rule = ("get_direction with every accepted string (6 letters and 48 three-letter orders in all case patterns), malformed strings and "
                "non-string/non-vector arguments; normal Vectors: axis-aligned, z = 0, x + y = 0, random integer and real, each scaled by 1e+-k "
                "(k up to 300) and with one component shrunk by 1e-k, any unit; VectorBasis objects (plain and rolled) handed back to "
                "get_direction; the VectorBasis constructor with (n), (n, u perpendicular) and roll(); 'top'/'side' (any case) on particle "
                "clouds of 1-40 particles (exact small rationals and real-valued rotating clouds), window given or data extent rule, "
                "origin given or not. impl vs Spec (orthonormal to 1e-12, orientation) and impl vs model (directions to 1e-9). "
                "non-trivial = inside the claim and not a single letter; distinct by case hash")
    return out


def describe(c):
    k = c["kind"]
    if k == "str":
        return repr(c["s"])
    if k == "vec":
        return f"Vector{tuple(c['v'])}"
    if k in ("basis", "roll"):
        return f"VectorBasis(n={tuple(c['n'])})" + (".roll()" if k == "roll" or c.get("rolled") else "")
    if k == "nu":
        return f"n={tuple(c['n'])}, u={tuple(c['u'])}"
    if k == "cloud":
        return f"{c['s']!r}, {len(c['pos'])} particles, window {c.get('win')}, origin {c.get('origin')}"
    return str(c.get("value"))


def replay(ctx, path):
    payload = json.load(open(path))
    c = payload["case"]
    impl = run_impl(ctx.osyris, c)
    ans = run_geom([lean_line(c, impl)])[0]
    print("impl :", impl)
    print("model:", {k: ans.get(k) for k in ("out", "n", "u", "v", "L")})
    if in_claim(c, ans):
        v = spec_violation(c, impl, ans)
        if v:
            print("difference:", v)
            print(f"VIOLATION property=C18 replay={path}")
            return 1
    print("replay: implementation satisfies the Spec on this input now")
    return 0
