"""C14 Particle and sink tables are loaded completely, typed and scaled correctly."""
from fractions import Fraction

from .. import lean, loadrun, ramses
from ..framework import Outcome, case_hash
from .c01 import describe

TRUSTED = ["np.loadtxt for the sink CSV; np.argsort on distinct keys for sortby"]
ASSUMPTIONS = ["a sink file is either empty (0 bytes) or holds the two header lines and at least one sink row",
               "sortby keys have distinct values"]


def run(ctx):
    osy = ctx.osyris
    out_ = Outcome()
    n = 40 if ctx.tier == "quick" else 1000
    r = ctx.rng
    dist = {}
    for i in range(n):
        exact = (i % 4) != 3
        out = ramses.gen_output(r, exact=exact, max_octs=12, levelmax=r.randint(1, 2), with_part=(i % 5 != 4),
                                with_sink=(i % 3 != 2), with_grav=False, with_rt=False)
        req = {}
        kind = "full"
        if out["part"] and i % 4 == 1:
            cols = [nm for nm, _ in out["part"]["descriptor"]]
            if "identity" in cols and sum(pc["npart"] for pc in out["part"]["per_cpu"]) > 0:
                req["sortby"] = {"part": "identity"}
                kind = "sortby"
        if out["part"] and i % 4 == 2:
            cols = [nm for nm, _ in out["part"]["descriptor"]]
            req["part_vars"] = [c for c in cols if r.random() < 0.6] or cols[:1]
            kind = "part_vars"
        if i % 6 == 5:
            req["mesh_on"] = False
            kind = "no_mesh"
        np_tot = sum(pc["npart"] for pc in out["part"]["per_cpu"]) if out["part"] else None
        k = f"{kind}:part={np_tot}:sink={'none' if not out['sink'] else ('empty' if out['sink']['empty_file'] else str(len(out['sink']['rows'])) + ('L' if '[' in out['sink']['units'][1] else 'C'))}"
        dist[k] = dist.get(k, 0) + 1
        with loadrun.Written(out) as w:
            impl = loadrun.run_impl(osy, w, req)
            model, spec = lean.run_driver([loadrun.driver_case(out, req, "model", files=True, osy=osy),
                                           loadrun.driver_case(out, req, "spec", osy=osy)])
            dfile = loadrun.compare_files(w, model)
        out_.evaluations += 1
        out_.compared += 1
        if out["part"] or out["sink"]:
            out_.nontrivial.add(case_hash({"o": ramses.to_json(out)["part"], "s": ramses.to_json(out)["sink"], "r": str(req)}))
        if len(out_.samples) < 3:
            out_.samples.append({"output": describe(out), "request": {k2: v for k2, v in req.items()},
                                 "part_descriptor": out["part"]["descriptor"] if out["part"] else None,
                                 "header_record_sizes": out["part"]["header_sizes"] if out["part"] else None,
                                 "sink_units": out["sink"]["units"] if out["sink"] else None})
        if dfile:
            out_.disagreements.append(({"output": describe(out)}, dfile))
            continue
        # sortby: the model/spec columns permuted by the key (distinct keys)
        def sorted_by(cols, key):
            d = dict((k2, v) for k2, v in cols)
            if key not in d:
                return cols
            order = sorted(range(len(d[key])), key=lambda j: Fraction(d[key][j]))
            return [[k2, [v[j] for j in order]] for k2, v in cols]

        if "sortby" in req and not impl["err"]:
            model = dict(model, part=sorted_by(model["part"], "identity"))
            spec = dict(spec, part=sorted_by(spec["part"], "identity"))
        d = None
        if impl["err"]:
            d = "implementation raised " + impl["err"]
        elif "err" in model:
            d = "model: " + model["err"]
        else:
            d = (loadrun.compare_group(out, impl["groups"], "part", model, exact)
                 or loadrun.compare_sink(out, impl["groups"], model, exact)
                 or loadrun.compare_trace(impl.get("trace"), model))
            if not d and int(impl["meta"]["nparticles"]) != model["nparticles"]:
                d = f"meta nparticles {impl['meta']['nparticles']} vs model {model['nparticles']}"
        if d:
            out_.disagreements.append(({"output": describe(out), "request": str(req)}, d))
        v = None
        if impl["err"]:
            v = "load raised " + impl["err"]
        else:
            v = (loadrun.compare_spec(out, impl["groups"], "part", spec, exact)
                 or loadrun.compare_sink(out, impl["groups"], spec, exact))
            if not v and "sortby" in req and "part" in impl["groups"]:
                cols, _ = loadrun.flatten_impl(impl["groups"], "part")
                ids = cols.get("identity", ([], 0, 0))[0]
                if ids != sorted(ids):
                    v = "sortby: the key column is not sorted"
            if not v and out["part"] and "part" in impl["groups"]:
                # dtypes: every particle column is multiplied by a float magnitude -> float64
                for m in impl["groups"]["part"]:
                    for c, vals, dt, sym in m["comps"]:
                        if dt != "float64":
                            v = f"part[{m['key']}] dtype {dt}"
        if v:
            out_.violations.append({"what": v, "case": {"output": ramses.to_json(out), "request": str(req)},
                                    "call_site": "PartReader.read_header / SinkReader.initialize", "input_class": kind})
    out_.distribution = {"kind:particles:sinks": dist}
    out_.rule = ("outputs with particle files (0..7 particles per cpu incl. cpus with none, descriptors mixing d/i/b columns and random subsets, "
                 "five header records of 4..64 bytes) and sink CSV files (missing / empty / 1 / 3 sinks, code-unit and legacy bracket unit lines), "
                 "ndim 1-3; full loads, sortby identity, variable lists, mesh switched off. Writer vs Lean encode, real loader vs model (rows in "
                 "order, units, read trace), real loader vs Spec. non-trivial = has particles or sinks; distinct by case hash")
    return out_


def replay(ctx, path):
    print("re-run `check.py C14` (cases are stored as abstract outputs + requests in the replay file)")
    return 0
