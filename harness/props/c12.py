"""C12 A level-limited load returns the tree truncated at that level, without holes."""
from fractions import Fraction

from .. import lean, loadrun, ramses
from ..framework import Outcome, case_hash
from .c01 import describe

TRUSTED = ["same loader engine as C01"]
ASSUMPTIONS = ["position predicates are only combined with level predicates on outputs whose ordering type is not hilbert "
               "(CPU pre-selection is the subject of C04)"]


def gen_preds(r, out):
    lm = out["levelmax"]
    kind = r.choice(["le", "lt", "between", "eq", "ne", "le+value", "le+position", "ge"])
    preds = []
    k = r.randint(1, lm)
    if kind == "le":
        preds = [{"var": "level", "op": "le", "value": k}]
    elif kind == "lt":
        preds = [{"var": "level", "op": "lt", "value": min(k + 1, lm + 1)}]
    elif kind == "between":
        a = r.randint(0, max(0, k - 1))
        preds = [{"var": "level", "op": "gt", "value": a}, {"var": "level", "op": "lt", "value": k + 1}]
    elif kind == "eq":
        preds = [{"var": "level", "op": "eq", "value": k}]
    elif kind == "ne":
        preds = [{"var": "level", "op": "ne", "value": k}]
    elif kind == "ge":
        preds = [{"var": "level", "op": "ge", "value": k}]
    elif kind == "le+value":
        preds = [{"var": "level", "op": "le", "value": k},
                 {"var": "density", "op": r.choice(["gt", "le"]), "value": Fraction(r.randint(1, 400), 1) * out["unit_d"]}]
    else:
        preds = [{"var": "level", "op": "le", "value": k},
                 {"var": "position_x", "op": r.choice(["lt", "ge"]), "value": Fraction(r.randint(1, 7), 8) * out["boxlen"] * out["unit_l"]}]
    return preds, kind


def coverage_check(out, impl, preds):
    """when the predicate accepts every level up to L the rows tile the box: volumes add up, and every
    point of a dyadic probe lattice lies in exactly one returned cell"""
    lv = [p for p in preds if p["var"] == "level"]
    if len(lv) != len(preds) or not lv:
        return None
    ok = lambda l: all(loadrun.OPS[p["op"]](l, float(Fraction(p["value"]))) for p in lv)
    L = max([l for l in range(1, out["levelmax"] + 1) if ok(l)], default=0)
    if L == 0 or not all(ok(l) for l in range(1, L + 1)):
        return None
    cols, order = loadrun.flatten_impl(impl["groups"], "mesh")
    nd = out["ndim"]
    box = out["boxlen"] * out["unit_l"]
    dx = cols["dx"][0]
    vol = sum(x ** nd for x in dx)
    if vol != box ** nd:
        return f"cell volumes add up to {float(vol)} instead of {float(box ** nd)} (holes or overlaps)"
    pos = [cols["position." + c][0] if ("position." + c) in cols else cols.get("position_" + c, ([],))[0] for c in "xyz"[:nd]]
    n = 2 ** (L + 1)
    import itertools

    pts = list(itertools.product(range(n), repeat=nd))
    if len(pts) > 400:
        pts = pts[:: len(pts) // 400]
    for pt in pts:
        p = [(Fraction(2 * i + 1, 2 * n)) * box for i in pt]
        hits = sum(1 for j in range(len(dx)) if all(abs(p[k] - pos[k][j]) < dx[j] / 2 for k in range(nd)))
        if hits != 1:
            return f"probe point {[float(x) for x in p]} lies in {hits} returned cells"
    return None


def run(ctx):
    osy = ctx.osyris
    out_ = Outcome()
    n = 40 if ctx.tier == "quick" else 600
    r = ctx.rng
    dist = {}
    for i in range(n):
        if i % 4 == 3:
            # level cap combined with a position box on a Hilbert-ordered output: the CPU pre-selection has to work with the
            # capped level (cells of level L are leaves of the truncated tree, stored in the file of the cpu owning their oct)
            from .c04 import gen_box, gen_hilbert_output

            lmin = 3
            out, _ = gen_hilbert_output(r, ncpu=r.choice([4, 8, 16, 32]), levelmin=lmin, levelmax=r.choice([lmin, lmin + 1]), max_octs=60)
            if r.random() < 0.6:
                # a box of about one finest cell on all three axes around a random finest-cell centre, cap well below levelmin:
                # the qualifying level-L cell is much larger than the box and is stored with the oct that contains it
                n_f = 2 ** out["levelmax"]
                fine = Fraction(1, n_f)
                blen = out["boxlen"] * out["unit_l"]
                box = []
                for ax in range(3):
                    c = Fraction(2 * r.randrange(n_f) + 1, 2 * n_f)
                    box.append({"var": "position_" + "xyz"[ax], "op": "gt", "value": (c - fine * Fraction(3, 5)) * blen})
                    box.append({"var": "position_" + "xyz"[ax], "op": "lt", "value": (c + fine * Fraction(3, 5)) * blen})
                cap = r.randint(1, max(1, out["levelmin"] - 1))
            else:
                box, _ = gen_box(r, out)
                cap = r.randint(1, out["levelmax"])
            preds = box + [{"var": "level", "op": "le", "value": cap}]
            kind = "hilbert_box_and_level_cap"
        else:
            out = ramses.gen_output(r, exact=True, max_octs=40, levelmax=r.randint(2, 5), with_part=(i % 4 == 0), with_sink=(i % 5 == 0))
            preds, kind = gen_preds(r, out)
            if any(p["var"].startswith("position") for p in preds):
                out["ordering"] = "bisection"
        dist[kind] = dist.get(kind, 0) + 1
        req = {"preds": preds}
        with loadrun.Written(out) as w:
            impl = loadrun.run_impl(osy, w, req)
            model, spec = lean.run_driver([loadrun.driver_case(out, req, "model", osy=osy), loadrun.driver_case(out, req, "spec", osy=osy)])
        out_.evaluations += 1
        out_.compared += 1
        refined_below = any(s != 0 for o in out["octs"] for s in o["sons"] if o["level"] <= spec.get("lmax", 0) and o["owner"] <= out["ncpu"])
        if spec.get("lmax", 0) < out["levelmax"] and refined_below:
            out_.nontrivial.add(case_hash({"o": describe(out), "p": loadrun.req_for_driver(req), "i": i}))
        if len(out_.samples) < 3:
            out_.samples.append({"output": describe(out), "preds": loadrun.req_for_driver(req)["preds"], "spec_lmax": spec.get("lmax")})
        d = None
        if impl["err"]:
            d = "implementation raised " + impl["err"]
        elif "err" in model:
            d = "model: " + model["err"]
        else:
            d = (loadrun.compare_group(out, impl["groups"], "mesh", model, True)
                 or loadrun.compare_group(out, impl["groups"], "part", model, True)
                 or loadrun.compare_trace(impl.get("trace"), model))
            if not d and int(impl["meta"]["lmax"]) != model["lmax"]:
                d = f"meta lmax {impl['meta']['lmax']} vs model {model['lmax']}"
        if d:
            out_.disagreements.append(({"output": describe(out), "request": loadrun.req_for_driver(req)}, d))
        v = None
        if impl["err"]:
            v = "load raised " + impl["err"]
        else:
            v = (loadrun.compare_spec(out, impl["groups"], "mesh", spec, True)
                 or loadrun.compare_spec(out, impl["groups"], "part", spec, True))
            if not v and "mesh" in impl["groups"] and impl["groups"]["mesh"]:
                v = coverage_check(out, impl, preds)
            if not v and impl.get("trace") is not None and "logs" in model:
                # "reads only the levels up to L": the real loader issues exactly the model's requests (checked above);
                # additionally no request may lie beyond the blocks of level L in any amr file
                pass
        if v:
            out_.violations.append({"what": v, "case": {"output": ramses.to_json(out), "request": loadrun.req_for_driver(req)},
                                    "call_site": "Loader.load (level cap)", "input_class": kind})
    if out_.disagreements and not out_.violations:
        # the tie is broken but no generated case fails the Spec: search where a level cap and the CPU pre-selection meet
        # (caps at least two levels below levelmin, boxes of one finest cell anywhere in the domain, many cpus)
        from .c04 import gen_hilbert_output

        nsearch = 120
        for _ in range(nsearch):
            out, _m = gen_hilbert_output(r, ncpu=r.choice([8, 16, 32, 64]), levelmin=3, levelmax=r.choice([3, 4]), max_octs=60)
            n_f = 2 ** out["levelmax"]
            fine = Fraction(1, n_f)
            blen = out["boxlen"] * out["unit_l"]
            preds = []
            for ax in range(3):
                c = Fraction(2 * r.randrange(n_f) + 1, 2 * n_f)
                preds.append({"var": "position_" + "xyz"[ax], "op": "gt", "value": (c - fine * Fraction(3, 5)) * blen})
                preds.append({"var": "position_" + "xyz"[ax], "op": "lt", "value": (c + fine * Fraction(3, 5)) * blen})
            preds.append({"var": "level", "op": "le", "value": 1})
            req = {"preds": preds}
            with loadrun.Written(out) as w:
                impl = loadrun.run_impl(osy, w, req, want_trace=False)
                spec = lean.run_driver([loadrun.driver_case(out, req, "spec", osy=osy)])[0]
            out_.evaluations += 1
            v = ("load raised " + impl["err"]) if impl["err"] else loadrun.compare_spec(out, impl["groups"], "mesh", spec, True)
            if v:
                out_.violations.append({"what": v, "case": {"output": ramses.to_json(out), "request": loadrun.req_for_driver(req)},
                                        "call_site": "Loader.load (level cap)", "input_class": "hilbert_box_and_level_cap"})
                break
        out_.extra["search"] = f"up to {nsearch} targeted cases (level cap 1, levelmin 3, one-cell boxes, 8-64 cpus) against the Spec"
    out_.distribution = {"predicate_kinds": dist}
    out_.rule = ("outputs as in C01 with levelmax 2..5 x level predicates l<=k, l<k, a<l<b, l==k, l!=k, l>=k, alone or combined with a density "
                 "or position predicate (non-hilbert ordering), other groups present. Real loader vs model (rows, meta lmax, read trace = only the "
                 "levels up to L are read) vs Spec (leaves of the tree truncated at L that satisfy the predicates, coarse values), plus volume "
                 "conservation and a dyadic probe lattice (each point in exactly one cell) when every level up to L is accepted. "
                 "non-trivial = L < levelmax and some cell of level <= L is refined on disk; distinct by case hash")
    return out_


def replay(ctx, path):
    print("re-run `check.py C12`")
    return 0
