"""C09 Vector operations are the component-wise lifting of Array operations."""
from fractions import Fraction

from .. import coremachine, ucat
from ..gencore import G, replay_core, run_programs

TRUSTED = ["numpy sqrt in Vector.norm (compared squared)"]
ASSUMPTIONS = ["norm is compared through its square (exact in the exact lane); 1-component norm sign is checked separately"]

OPS = ["add", "sub", "mul", "div", "lt", "le", "gt", "ge", "eq", "ne"]
POW2 = [Fraction(1), Fraction(2), Fraction(4), Fraction(1, 2), Fraction(-1), Fraction(-2), Fraction(-1, 2)]


def mkvec(g, prog, base, n, shape, dt, u, name="", values=None):
    cs = []
    for c in range(n):
        prog.append({"op": "arr", "dst": base + c, "v": g.arr(shape, dt, u, small=True, values=None if values is None else values[c])})
        cs.append(base + c)
    prog.append({"op": "vec", "dst": base + 5, "comps": cs, "name": name})
    return base + 5


def gen_case(g):
    r = g.rng
    fams = g.families()
    fam = r.choice([f for f in sorted(fams) if f != "dimensionless"])
    ua = r.choice(fams[fam])
    ub = r.choice(fams[fam]) if r.random() < 0.75 else r.choice(fams[r.choice(sorted(fams))])
    exact = g.lane == "exact"
    dts = ["f8", "f4", "i8", "i4"] if exact else ["f8"]
    da, db = r.choice(dts), r.choice(dts)
    n = r.choice([1, 2, 3, 3])
    shape = r.choice([[], [1], [4], [2, 2]])
    kind = r.choice(["bin_vec", "bin_arr", "bin_val", "rbin", "setcomp", "mismatch", "unary", "pow", "normsq", "dot", "cross", "get", "comp"])
    prog = []
    v = mkvec(g, prog, 10, n, shape, da, ua, name=r.choice(["", "vel"]))

    def divisor_vals(sh, dt, k):
        sz = 1
        for d in sh:
            sz *= d
        return [[r.choice(POW2) if dt in ("f8", "f4") else Fraction(r.choice([1, 2, 4, -1, -2])) for _ in range(sz)] for _ in range(k)]

    if kind == "bin_vec":
        op = r.choice(OPS)
        vals = divisor_vals(shape, db, n) if (op == "div" and exact) else None
        w = mkvec(g, prog, 20, n, shape, db, ub, values=vals)
        prog.append({"op": "bin", "dst": 30, "name": op, "a": v, "rhs": {"k": "var", "v": w}})
        prog += [{"op": "obs", "v": 30}]
        for c in range(n):   # the lifting: same operation on each component Array
            prog.append({"op": "bin", "dst": 40 + c, "name": op, "a": 10 + c, "rhs": {"k": "var", "v": 20 + c}})
            prog.append({"op": "obs", "v": 40 + c})
        prog += [{"op": "obs", "v": v}, {"op": "obs", "v": w}]
    elif kind == "bin_arr":
        op = r.choice(OPS)
        sh = r.choice([shape, []])
        vals = divisor_vals(sh, db, 1)[0] if (op == "div" and exact) else None
        prog.append({"op": "arr", "dst": 20, "v": g.arr(sh, db, ub, small=True, values=vals)})
        prog.append({"op": "bin", "dst": 30, "name": op, "a": v, "rhs": {"k": "var", "v": 20}})
        prog += [{"op": "obs", "v": 30}]
        for c in range(n):
            prog.append({"op": "bin", "dst": 40 + c, "name": op, "a": 10 + c, "rhs": {"k": "var", "v": 20}})
            prog.append({"op": "obs", "v": 40 + c})
    elif kind == "bin_val":
        op = r.choice(OPS)
        pyk = r.choice(["num", "nd", "qty"])
        sh = [] if pyk == "num" else r.choice([shape, []])
        dk = r.choice(["i8", "f8"]) if pyk == "num" else db
        vals = divisor_vals(sh, dk, 1)[0] if (op == "div" and exact) else None
        uu = ub if pyk == "qty" else ""
        prog.append({"op": "bin", "dst": 30, "name": op, "a": v,
                     "rhs": {"k": "val", "py": pyk, "v": g.arr(sh, dk, uu, small=True, values=vals)}})
        prog += [{"op": "obs", "v": 30}]
    elif kind == "rbin":
        # reflected operators: number op Vector, Array op Vector (Array.__op__ defers to Vector.__rop__)
        op = r.choice(["mul", "div", "div", "add", "sub"])
        pyk = r.choice(["num", "arr"])
        sh = [] if pyk == "num" else r.choice([shape, []])
        dk = r.choice(["i8", "f8"]) if pyk == "num" else db
        uu = ub if pyk == "arr" else ""
        if op != "div" and exact and r.random() < 0.4:
            # a boolean Vector (a mask built from comparisons) under a reflected operator: n - mask, n * mask, n + mask
            # promote to the dtype of the other operand before anything is negated
            prog.clear()
            v = mkvec(g, prog, 10, n, shape, "b", "", name="")
            op = r.choice(["sub", "sub", "add", "mul"])
            if pyk == "arr":
                uu = ""
        if op == "div" and exact:
            # the divisor is the Vector: powers of two (floats) / small integers keep the quotients exact
            prog.clear()
            v = mkvec(g, prog, 10, n, shape, da, ua, name="", values=divisor_vals(shape, da, n))
        lhs = g.arr(sh, dk, uu, small=True, nonzero=True, values=divisor_vals(sh, dk, 1)[0] if (op == "div" and exact) else None)
        prog.append({"op": "rbin", "dst": 30, "name": op, "a": v, "py": pyk, "lhs": lhs})
        prog += [{"op": "obs", "v": 30}]
        if pyk == "num" and op in ("mul", "div"):
            for c in range(n):   # the lifting: same reflected operation on each component Array
                prog.append({"op": "rbin", "dst": 40 + c, "name": op, "a": 10 + c, "py": pyk, "lhs": lhs})
                prog.append({"op": "obs", "v": 40 + c})
        prog += [{"op": "obs", "v": v}]
    elif kind == "setcomp":
        # a component attribute rebound after construction (v.z = a, v.x = a): every later operation is made of the new object
        c = r.randint(0, n - 1) if (n == 3 or r.random() < 0.5) else n
        prog.append({"op": "arr", "dst": 20, "v": g.arr(shape, da, ua, small=True)})
        prog.append({"op": "vec_setcomp", "a": v, "c": c, "v": 20})
        prog.append({"op": "obs", "v": v})
        prog.append({"op": "bin", "dst": 30, "name": "mul", "a": v, "rhs": {"k": "val", "py": "num", "v": g.arr([], "i8", "", small=True)}})
        prog.append({"op": "obs", "v": 30})
        prog.append({"op": "un", "dst": 31, "name": "neg", "a": v})
        prog.append({"op": "obs", "v": 31})
        prog.append({"op": "bin", "dst": 32, "name": "add", "a": v, "rhs": {"k": "var", "v": v}})
        prog.append({"op": "obs", "v": 32})
        prog.append({"op": "normsq", "a": v})
        prog.append({"op": "dot", "dst": 33, "a": v, "b": v})
        prog.append({"op": "obs", "v": 33})
        prog.append({"op": "comp", "dst": 34, "a": v, "c": c})
        prog.append({"op": "same", "a": 34, "b": 20})
    elif kind == "mismatch":
        m = r.choice([k for k in (1, 2, 3) if k != n])
        w = mkvec(g, prog, 20, m, shape, db, ub)
        prog.append({"op": "bin", "dst": 30, "name": r.choice(OPS), "a": v, "rhs": {"k": "var", "v": w}})
        prog += [{"op": "obs", "v": v}]
    elif kind == "unary":
        prog.append({"op": "un", "dst": 30, "name": r.choice(["neg", "abs", "square"]), "a": v})
        prog += [{"op": "obs", "v": 30}]
    elif kind == "pow":
        prog.append({"op": "pow", "dst": 30, "a": v, "k": r.choice([0, 1, 2, 3])})
        prog += [{"op": "obs", "v": 30}]
    elif kind == "normsq":
        prog.append({"op": "normsq", "a": v})
    elif kind == "dot":
        w = mkvec(g, prog, 20, n, shape, db, ub)
        prog.append({"op": "dot", "dst": 30, "a": v, "b": w})
        prog.append({"op": "dot", "dst": 31, "a": w, "b": v})
        prog += [{"op": "obs", "v": 30}, {"op": "obs", "v": 31}]
    elif kind == "cross":
        prog = []
        v = mkvec(g, prog, 10, 3, shape, da, ua)
        w = mkvec(g, prog, 20, 3, shape, db, ub)
        prog.append({"op": "cross", "dst": 30, "a": v, "b": w})
        prog.append({"op": "cross", "dst": 31, "a": w, "b": v})
        if exact:   # a . (a x b) = 0 exactly (a cancellation: only comparable without rounding)
            prog.append({"op": "dot", "dst": 32, "a": v, "b": 30})
        else:
            prog.append({"op": "dot", "dst": 32, "a": v, "b": v})
        prog.append({"op": "normsq", "a": 30})                      # Lagrange: |a x b|^2 + (a.b)^2 = |a|^2 |b|^2
        prog.append({"op": "dot", "dst": 33, "a": v, "b": w})
        prog.append({"op": "normsq", "a": v})
        prog.append({"op": "normsq", "a": w})
        prog += [{"op": "obs", "v": 30}, {"op": "obs", "v": 31}, {"op": "obs", "v": 32}, {"op": "obs", "v": 33}]
    elif kind == "get":
        rows = shape[0] if shape else 0
        prog.append({"op": "get", "dst": 30, "a": v, "ix": g.index(rows)})
        prog += [{"op": "obs", "v": 30}]
    else:
        c = r.randint(0, 2)
        prog.append({"op": "comp", "dst": 30, "a": v, "c": c})
        prog += [{"op": "obs", "v": 30}, {"op": "same", "a": 30, "b": 10 + min(c, n - 1)}]
    return {"prog": prog, "lane": g.lane, "tags": [kind, str(n), str(ua != ub)]}


def nontrivial(case, impl_out):
    return case["tags"][0] not in ("comp", "get")


def classify(prog, actual, expected, diff):
    ops = [o["op"] for o in prog]
    if "cross" in ops:
        return ("Vector.cross", "any")
    if "dot" in ops:
        return ("Vector.dot", "any")
    if "normsq" in ops:
        return ("Vector.norm", "any")
    return ("vector._binary_op", "any")


def check_norm_sign(ctx, out, g):
    """Euclidean norm is non-negative: the 1-component case returns the component itself."""
    osy = ctx.osyris
    prog = [{"op": "arr", "dst": 1, "v": g.arr([2], "f8", "vl1", values=[Fraction(-3), Fraction(2)])},
            {"op": "vec", "dst": 2, "comps": [1]},
            {"op": "normsq", "a": 2}]
    m = coremachine.PyMachine(osy)
    res = m.run(prog)
    out.evaluations += 1
    if isinstance(res[-1], dict) and res[-1].get("norm_nonneg") is False:
        out.violations.append({
            "what": "norm of a 1-component Vector is negative (returns the component, not its absolute value)",
            "case": {"engine": "core", "prog": prog, "lane": "exact"}, "actual": res[-1],
            "call_site": "Vector.norm", "input_class": "one_component_negative"})


def check_numpy_lifting(ctx, out):
    """numpy functions called on Vectors (also on sequences of Vectors, with the axis given positionally or by keyword) against
    the same call on each component Array — the property's own wording; what the Array-level call returns is C10's subject"""
    import numpy as np

    osy = ctx.osyris
    r = ctx.rng
    n = 150 if ctx.tier == "quick" else 3000
    fams = ucat.REAL_FAMILIES
    seq = ["concatenate", "stack", "hstack", "vstack"]
    unary = ["sqrt_abs", "absolute", "negative", "square", "isnan", "transpose"]
    reduce_ = ["sum", "mean", "min", "max", "cumsum"]
    binary = ["add", "subtract", "multiply", "maximum", "minimum"]
    for t in range(n):
        ncomp = r.choice([1, 2, 3, 3])
        shape = r.choice([[4], [2, 3], [3, 2], [2, 2, 2]])
        fam = r.choice([f for f in sorted(fams) if f != "dimensionless"])
        ua = r.choice(fams[fam])
        ub = r.choice(fams[fam]) if r.random() < 0.7 else ua
        dt = r.choice([np.float64, np.float64, np.int64])

        def vec(u):
            return osy.Vector(*[np.array([r.randint(-6, 6) for _ in range(int(np.prod(shape)))], dtype=dt).reshape(shape) for _ in range(ncomp)], unit=u)

        v, w = vec(ua), vec(ub)
        kind = r.choice(["seq", "seq", "unary", "reduce", "reduce", "binary"])
        nd = len(shape)
        axis = r.randint(-nd, nd - 1)
        how = r.choice(["none", "pos", "kw"])
        if kind == "seq":
            name = r.choice(seq)
            if name in ("hstack", "vstack"):
                how = "none"
            if name == "stack":
                axis = r.randint(-nd - 1, nd)

            def call(a, b, name=name, how=how, axis=axis):
                f = getattr(np, name)
                return f((a, b)) if how == "none" else (f((a, b), axis) if how == "pos" else f((a, b), axis=axis))
        elif kind == "unary":
            name = r.choice(unary)
            how = "none"

            def call(a, b, name=name):
                return np.sqrt(np.absolute(a)) if name == "sqrt_abs" else getattr(np, name)(a)
        elif kind == "reduce":
            name = r.choice(reduce_)

            def call(a, b, name=name, how=how, axis=axis):
                f = getattr(np, name)
                return f(a) if how == "none" else (f(a, axis) if how == "pos" else f(a, axis=axis))
        else:
            name = r.choice(binary)
            how = "none"
            ub2 = ua if name in ("add", "subtract", "maximum", "minimum") else ub      # (mixed units in these: C10's known finding)
            w = vec(ub2)

            def call(a, b, name=name):
                return getattr(np, name)(a, b)
        out.evaluations += 1
        out.compared += 1
        out.nontrivial.add(f"lifting:{t}")

        def run_one(f, *args):
            try:
                with np.errstate(all="ignore"):
                    return ("ok", f(*args))
            except Exception as e:  # noqa: BLE001
                return ("err", type(e).__name__)

        got = run_one(call, v, w)
        want = [run_one(call, getattr(v, c), getattr(w, c)) for c in "xyz"[:ncomp]]
        bad = None
        desc = f"np.{name} on {ncomp}-component Vectors of shape {shape}" + ("" if how == "none" else f", axis {axis} given {'positionally' if how == 'pos' else 'by keyword'}")
        if got[0] == "err":
            if any(x[0] == "ok" for x in want):
                bad = f"{desc}: raised {got[1]} while the same call on the component Arrays works"
        elif any(x[0] == "err" for x in want):
            bad = f"{desc}: returned a result while the same call on a component Array raises {[x[1] for x in want if x[0] == 'err'][0]}"
        else:
            res = got[1]
            if not isinstance(res, osy.Vector):
                bad = f"{desc}: returned {type(res).__name__}, not a Vector"
            else:
                for c, (_, e) in zip("xyz", want):
                    a = getattr(res, c)
                    if a is None:
                        bad = f"{desc}: component {c} is missing from the result"
                        break
                    av, ev = np.asarray(a.values), np.asarray(e.values)
                    if av.shape != ev.shape or not np.array_equal(av, ev, equal_nan=av.dtype.kind == "f"):
                        bad = (f"{desc}: component {c} has shape {list(av.shape)} values {av.ravel().tolist()[:12]}, the same call on the "
                               f"component Arrays gives shape {list(ev.shape)} values {ev.ravel().tolist()[:12]}")
                        break
                    if a.unit != e.unit:
                        bad = f"{desc}: component {c} carries {a.unit}, the component call gives {e.unit}"
                        break
        if bad:
            out.violations.append({"what": bad, "case": {"function": name, "axis": None if how == "none" else axis, "axis_given": how, "ncomp": ncomp,
                                                         "shape": shape, "units": [ua, ub], "dtype": np.dtype(dt).name,
                                                         "v": [np.asarray(getattr(v, c).values).ravel().tolist() for c in "xyz"[:ncomp]],
                                                         "w": [np.asarray(getattr(w, c).values).ravel().tolist() for c in "xyz"[:ncomp]]},
                                   "call_site": "Vector.__array_ufunc__/__array_function__", "input_class": f"numpy_lifting:{name}"})
    out.extra["numpy_lifting_cases"] = n


def run(ctx):
    n = 800 if ctx.tier == "quick" else 16000
    ge = G(ctx.rng, ctx.osyris, "exact")
    gt = G(ctx.rng, ctx.osyris, "tol")
    cases = [gen_case(ge if i % 3 else gt) for i in range(n)]
    out = run_programs(ctx, cases, nontrivial, known_classifier=classify)
    check_norm_sign(ctx, out, ge)
    check_numpy_lifting(ctx, out)
    dist = {}
    for c in cases:
        k = c["tags"][0] + ":" + c["lane"]
        dist[k] = dist.get(k, 0) + 1
    out.distribution = {"kind:lane": dist}
    out.rule = ("Vector expressions: v (op) w / Array / number / ndarray / Quantity for ten operators next to the same operation on each "
                "component Array, component-count mismatches, unary and power, norm (squared), dot and cross in both orders with the "
                "identities a.(a x b)=0 and Lagrange evaluated on the outputs, indexing, component access; 1-3 components, shapes 0-d..2-d, "
                "dtypes, unit pairs incl. compatible-but-different. non-trivial = all but indexing/component access; distinct by program hash. Plus a lifting lane: numpy functions (concatenate / stack / hstack / vstack of Vector sequences, unary and binary ufuncs, reductions; axis positional or by keyword; 1-d..3-d components) against the same call on each component Array")
    return out


def replay(ctx, path):
    import json

    payload = json.load(open(path))
    c = payload.get("case") or {}
    if "function" not in c:
        return replay_core(ctx, path)
    # a case of the numpy lifting lane: the stored Vectors, the stored call
    import numpy as np

    osy = ctx.osyris
    shape, name, axis, how = c["shape"], c["function"], c.get("axis"), c.get("axis_given", "none")
    dt = np.dtype(c.get("dtype", "float64"))
    v = osy.Vector(*[np.array(x, dtype=dt).reshape(shape) for x in c["v"]], unit=c["units"][0])
    w = osy.Vector(*[np.array(x, dtype=dt).reshape(shape) for x in c["w"]], unit=c["units"][1])

    def call(a, b):
        if name == "sqrt_abs":
            return np.sqrt(np.absolute(a))
        f = getattr(np, name)
        args = ((a, b),) if name in ("concatenate", "stack", "hstack", "vstack") else ((a, b) if name in ("add", "subtract", "multiply", "maximum", "minimum") else (a,))
        return f(*args) if how == "none" else (f(*args, axis) if how == "pos" else f(*args, axis=axis))

    bad = False
    try:
        res = call(v, w)
        for k in "xyz"[:len(c["v"])]:
            e = call(getattr(v, k), getattr(w, k))
            a = getattr(res, k)
            same = np.asarray(a.values).shape == np.asarray(e.values).shape and np.array_equal(np.asarray(a.values), np.asarray(e.values)) and a.unit == e.unit
            print(f"component {k}: Vector call {np.asarray(a.values).tolist()} [{a.unit}], component call {np.asarray(e.values).tolist()} [{e.unit}] -> {'same' if same else 'DIFFERENT'}")
            bad = bad or not same
    except Exception as e:  # noqa: BLE001
        print("raised", type(e).__name__, e)
        bad = True
    print("replay:", "the violation reproduces" if bad else "implementation satisfies the lifting on this input now")
    return 1 if bad else 0
