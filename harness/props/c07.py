"""C07 Comparisons and logical operators compare physical quantities."""
from fractions import Fraction

from .. import lean, ucat
from ..gencore import G, replay_core, run_programs
from .c02 import shapes_pair, size

TRUSTED = ["numpy comparison / logical ufuncs on the raw values (modelled by BinOp.fn)"]
ASSUMPTIONS = [
    "exact lane: conversions are exact, ties included; tolerant lane: operands differ by >= 1% after conversion (near ties are not generated there)",
]
CMP = ["lt", "le", "gt", "ge", "eq", "ne"]
LOGIC = ["and", "or", "xor"]


def gen_cmp(g):
    r = g.rng
    fams = g.families()
    fam = r.choice(sorted(fams))
    ua = r.choice(fams[fam])
    incompatible = r.random() < 0.15
    ub = r.choice(fams[r.choice([f for f in sorted(fams) if f != fam])]) if incompatible else r.choice(fams[fam])
    fa = Fraction(g.ujson(ua)["f"])
    fb = Fraction(g.ujson(ub)["f"])
    op = r.choice(CMP)
    exact = g.lane == "exact"
    dts = ["f8", "f4", "i8", "i4"] if exact else ["f8"]
    da = r.choice(dts)
    db = r.choice(dts)
    pyk = r.choice(["var", "var", "var", "qty", "num", "nd"])
    if exact:
        sa, sb = shapes_pair(r)
    else:
        n = r.choice([1, 3, 6])
        sa, sb = r.choice([([n], [n]), ([n], []), ([], [])])
    a = g.arr(sa, da, ua, small=True)
    avals = [Fraction(x) for x in a["data"]]
    if pyk in ("num", "nd"):
        # dimensionless right operand against a unit-carrying left operand raises (strict);
        # use a dimensionless left operand half of the time
        if r.random() < 0.6:
            # any dimensionless unit, scaled ones included (percent, degree, ...): the number is converted to it
            fam = "dimensionless"
            ua = r.choice(fams["dimensionless"])
            a = g.arr(sa, da, ua, small=True)
            avals = [Fraction(x) for x in a["data"]]
            fa = Fraction(g.ujson(ua)["f"])
        ub = ""
        fb = Fraction(1)
        incompatible = fam != "dimensionless"  # a unit-carrying left operand against a bare number raises
        if pyk == "num":
            sb = []
            db = r.choice(["i8", "f8"])
    nb = size(sb)
    bvals = []
    for i in range(nb):
        base = avals[i % len(avals)] if avals else Fraction(0)
        conv = base * fa / fb if not incompatible else base
        mode = r.random()
        if exact:
            if db in ("i4", "i8"):
                conv = Fraction(int(conv))
            if mode < 0.4:
                v = conv  # tie (exact after conversion when conv is representable)
            elif mode < 0.7:
                v = conv + r.choice([-1, 1]) * (1 if db in ("i4", "i8") else Fraction(1, 16))
            else:
                v = g.value(db, small=True)
            if db == "f4" and (v.denominator > 4096 or abs(v) > 2 ** 14):
                v = Fraction(int(v))
        else:
            d = r.choice([Fraction(1, 100), Fraction(1, 2), Fraction(-1, 100), Fraction(-1, 2)])
            v = conv * (1 + d) if conv != 0 else Fraction(r.choice([-1, 1]))
            v = Fraction(float(v))
            if db in ("i4", "i8"):
                v = Fraction(int(v))  # a Python int operand carries an integer value
        bvals.append(v)
    b = g.arr(sb, db, ub, values=bvals)
    prog = [{"op": "arr", "dst": 1, "v": a}]
    if pyk == "var":
        prog.append({"op": "arr", "dst": 2, "v": b})
        rhs = {"k": "var", "v": 2}
    else:
        rhs = {"k": "val", "py": pyk, "v": b}
    prog.append({"op": "bin", "dst": 3, "name": op, "a": 1, "rhs": rhs})
    prog.append({"op": "obs", "v": 3})
    prog.append({"op": "obs", "v": 1})
    return {"prog": prog, "lane": g.lane, "tags": ["cmp", op, pyk, str(ua != ub), str(incompatible)]}


def gen_logic(g):
    r = g.rng
    sa, sb = shapes_pair(r)
    op = r.choice(LOGIC + ["not"])
    prog = [{"op": "arr", "dst": 1, "v": g.arr(sa, "b", "")}]
    if op == "not":
        prog.append({"op": "un", "dst": 3, "name": "not", "a": 1})
    else:
        pyk = r.choice(["var", "var", "nd"])
        b = g.arr(sb, "b", "")
        if pyk == "var":
            prog.append({"op": "arr", "dst": 2, "v": b})
            rhs = {"k": "var", "v": 2}
        else:
            rhs = {"k": "val", "py": "nd", "v": b}
        prog.append({"op": "bin", "dst": 3, "name": op, "a": 1, "rhs": rhs})
    prog.append({"op": "obs", "v": 3})
    return {"prog": prog, "lane": "exact", "tags": ["logic", op]}


def gen_chain(g):
    """a selection built the way loading filters / sub-domain extraction build it:
    (a < x) & (b >= y) | ~(c == z)"""
    r = g.rng
    n = r.choice([1, 4, 7])
    fams = g.families()
    prog = []
    v = 0
    masks = []
    for _ in range(r.randint(2, 3)):
        fam = r.choice(sorted(fams))
        ua, ub = r.choice(fams[fam]), r.choice(fams[fam])
        v += 1
        prog.append({"op": "arr", "dst": v, "v": g.arr([n], "f8", ua, small=True)})
        a = v
        v += 1
        prog.append({"op": "bin", "dst": v, "name": r.choice(CMP), "a": a,
                     "rhs": {"k": "val", "py": "qty", "v": g.arr([], "f8", ub, small=True)}})
        masks.append(v)
    cur = masks[0]
    for m in masks[1:]:
        v += 1
        prog.append({"op": "bin", "dst": v, "name": r.choice(LOGIC), "a": cur, "rhs": {"k": "var", "v": m}})
        cur = v
    if r.random() < 0.5:
        v += 1
        prog.append({"op": "un", "dst": v, "name": "not", "a": cur})
        cur = v
    prog.append({"op": "obs", "v": cur})
    return {"prog": prog, "lane": g.lane, "tags": ["chain"]}


def nontrivial(case, impl_out):
    t = case["tags"]
    return t[0] != "cmp" or t[3] == "True"


def classify(prog, actual, expected, diff):
    names = [o.get("name") for o in prog if o["op"] in ("bin", "un")]
    return ("Array comparison/logic", "/".join(n for n in names if n))


def vector_case(osy, out, op, dunder, ua, ub, avs, bv, bvs, pyk, plan):
    """Vector (op) Array / number / ndarray / Quantity / Vector on non-finite values: every component follows the Array plan"""
    import numpy as np

    a = osy.Vector(*[x.copy() for x in avs], unit=ua)
    if bvs is not None:
        b = osy.Vector(*[x.copy() for x in bvs], unit=ub)
    elif pyk == "var":
        b = osy.Array(values=bv.copy(), unit=ub)
    elif pyk == "qty":
        b = bv.copy() * osy.units(ub)
    elif pyk == "num":
        b = float(bv)
    else:
        b = bv.copy()
    try:
        with np.errstate(all="ignore"):
            res = getattr(a, dunder)(b)
        comps = [getattr(res, c) for c in "xyz"[:len(avs)]]
        got = ("ok", [np.asarray(c.values) for c in comps], [str(c.unit) for c in comps])
    except Exception as e:  # noqa: BLE001
        got = ("err", type(e).__name__)
    out.compared += 1
    out.nontrivial.add("nonfinite-vector:" + str(out.evaluations))
    bad = None
    if "err" in plan:
        if got[0] != "err":
            bad = f"Vector in {ua!r} compared with an operand in {ub!r} (incompatible) without raising"
    elif got[0] == "err":
        bad = f"raised {got[1]} although the units {ua!r} and {ub!r} are compatible"
    else:
        for c, x in enumerate(avs):
            y = bvs[c] if bvs is not None else bv
            with np.errstate(all="ignore"):
                want = getattr(np, plan["np"])(x, y * float(Fraction(plan["ratio"]))) if plan["converted"] else getattr(np, plan["np"])(x, y)
            if got[1][c].shape != want.shape or not np.array_equal(got[1][c], want):
                bad = (f"Vector {op} on non-finite values, component {'xyz'[c]}: observed {got[1][c].tolist()}, numpy {plan['np']} on the "
                       f"converted quantities gives {want.tolist()}")
                break
            if got[2][c] not in ("dimensionless", ""):
                bad = f"the boolean component {'xyz'[c]} carries the unit {got[2][c]}"
                break
    if bad:
        out.violations.append({"what": bad, "case": {"op": op, "lhs_components": [[repr(v) for v in x.reshape(-1).tolist()] for x in avs], "lhs_unit": ua,
                                                     "rhs": [repr(v) for v in bv.reshape(-1).tolist()] if bvs is None else [[repr(v) for v in y.reshape(-1).tolist()] for y in bvs],
                                                     "rhs_unit": ub, "rhs_kind": "vector" if bvs is not None else pyk},
                               "call_site": "Vector comparison", "input_class": "nonfinite-vector:" + op})


def check_nonfinite(ctx, out):
    """Comparisons on operands holding nan / +-inf. The rational model cannot hold those values, so the model supplies the
    *plan* (`binaryPlan`, tied to `ArrV.binaryOp` by theorem C07_plan_agrees): which numpy kernel is applied after which
    conversion factor; numpy itself evaluates that plan on the non-finite values and the result is compared with the
    implementation's. Spec = the same plan from the committed reference (it does not depend on the extracted tables)."""
    import numpy as np

    osy = ctx.osyris
    r = ctx.rng
    fams = ucat.REAL_FAMILIES
    n = 150 if ctx.tier == "quick" else 4000
    special = [float("nan"), float("inf"), float("-inf"), 0.0, -0.0]
    jobs, metas = [], []
    for _ in range(n):
        fam = r.choice(sorted(fams))
        ua = r.choice(fams[fam])
        ub = r.choice(fams[fam]) if r.random() < 0.85 else r.choice(fams[r.choice(sorted(fams))])
        op = r.choice(CMP)
        m = r.choice([1, 3, 6])
        sa, sb = r.choice([([m], [m]), ([m], []), ([], [m]), ([], [])])

        def vals(shape):
            k = 1
            for d in shape:
                k *= d
            return np.array([r.choice(special) if r.random() < 0.5 else r.uniform(-50, 50) for _ in range(k)], dtype=float).reshape(shape)

        av, bv = vals(sa), vals(sb)
        pyk = r.choice(["var", "var", "qty", "num", "nd"])
        if pyk in ("num", "nd"):
            ub = ""
            if r.random() < 0.7:
                ua = r.choice(fams["dimensionless"])
            if pyk == "num":
                bv = bv.reshape(-1)[:1].reshape(())
        # a third of the cases compare a Vector (component-wise lifting of the same plan, C09): its components hold their own
        # non-finite values; the other operand is as before, or a Vector of the same number of components
        nvec = r.choice([0, 0, 1, 2, 3])
        avs = [vals(sa) for _ in range(nvec)]
        bvs = [vals(sb) for _ in range(nvec)] if (nvec and pyk == "var" and r.random() < 0.5) else None
        jobs.append({"engine": "binplan", "name": op, "lu": ucat.unit_json(osy, ua), "ru": ucat.unit_json(osy, ub)})
        metas.append((op, ua, ub, av, bv, pyk, avs, bvs))
    plans = lean.run_driver(jobs)
    pyop = {"lt": "__lt__", "le": "__le__", "gt": "__gt__", "ge": "__ge__", "eq": "__eq__", "ne": "__ne__"}
    for (op, ua, ub, av, bv, pyk, avs, bvs), plan in zip(metas, plans):
        out.evaluations += 1
        if avs:
            vector_case(osy, out, op, pyop[op], ua, ub, avs, bv, bvs, pyk, plan)
            continue
        a = osy.Array(values=av.copy(), unit=ua)
        if pyk == "var":
            b = osy.Array(values=bv.copy(), unit=ub)
        elif pyk == "qty":
            b = bv.copy() * osy.units(ub)
        elif pyk == "num":
            b = float(bv)
        else:
            b = bv.copy()
        try:
            with np.errstate(all="ignore"):
                res = getattr(a, pyop[op])(b)
            got = ("ok", np.asarray(res.values), str(res.unit))
        except Exception as e:  # noqa: BLE001
            got = ("err", type(e).__name__)
        if "err" in plan:
            want = ("err", plan["err"])
        else:
            with np.errstate(all="ignore"):
                want = ("ok", getattr(np, plan["np"])(av, bv * float(Fraction(plan["ratio"]))) if plan["converted"] else getattr(np, plan["np"])(av, bv))
        out.compared += 1
        if any(np.isnan(x).any() for x in (av, bv)):
            out.nontrivial.add("nonfinite:" + str(out.evaluations))
        bad = None
        if want[0] == "err":
            if got[0] != "err":
                bad = f"operands of incompatible dimensions ({ua!r} vs {ub!r}) compared without raising"
        elif got[0] == "err":
            bad = f"raised {got[1]} although the units {ua!r} and {ub!r} are compatible"
        elif got[1].shape != want[1].shape or not np.array_equal(got[1], want[1]):
            bad = f"{op} on non-finite values: observed {got[1].tolist()}, numpy {plan['np']} on the converted quantities gives {want[1].tolist()}"
        elif got[2] not in ("dimensionless", ""):
            bad = f"the boolean result carries the unit {got[2]}"
        if bad:
            out.violations.append({"what": bad, "case": {"op": op, "lhs": [repr(x) for x in av.reshape(-1).tolist()], "lhs_unit": ua,
                                                         "rhs": [repr(x) for x in bv.reshape(-1).tolist()], "rhs_unit": ub, "rhs_kind": pyk,
                                                         "shapes": [list(av.shape), list(bv.shape)]},
                                   "call_site": "Array comparison/logic", "input_class": "nonfinite:" + op})
    out.extra["nonfinite_cases"] = n


def run(ctx):
    n = 900 if ctx.tier == "quick" else 20000
    ge = G(ctx.rng, ctx.osyris, "exact")
    gt = G(ctx.rng, ctx.osyris, "tol")
    cases = []
    for i in range(n):
        k = i % 10
        if k < 6:
            cases.append(gen_cmp(ge if i % 3 else gt))
        elif k < 8:
            cases.append(gen_logic(ge))
        else:
            cases.append(gen_chain(ge))
    out = run_programs(ctx, cases, nontrivial, known_classifier=classify)
    check_nonfinite(ctx, out)
    dist = {}
    for c in cases:
        k = ":".join(c["tags"][:2]) + ":" + c["lane"]
        dist[k] = dist.get(k, 0) + 1
    out.distribution = {"kind:op:lane": dist}
    out.rule = ("comparison of two operands whose values are related after unit conversion (exact ties, +-1 ulp-scale offsets, unrelated "
                "values) x six operators x operand kinds x dtypes x shapes x compatible/incompatible unit pairs; logical &,|,^,~ on boolean "
                "Arrays; chains of comparisons combined with logical operators as selections are built. non-trivial = operands in different "
                "units, or a logical/chain case; distinct by program hash. Plus a lane with nan / +-inf / signed zero operands evaluated by numpy "
                "on the model's plan (kernel name, conversion factor)")
    return out


def replay(ctx, path):
    return replay_core(ctx, path)
