"""C07 Comparisons and logical operators compare physical quantities."""
from fractions import Fraction

from ..gencore import G, replay_core, run_programs
from .c02 import shapes_pair, size

TRUSTED = ["numpy comparison / logical ufuncs on the raw values (modelled by BinOp.fn)"]
ASSUMPTIONS = [
    "exact lane: conversions are exact, ties included; tolerant lane: operands differ by >= 1% after conversion (near ties are not generated there)",
]
CMP = ["lt", "le", "gt", "ge", "eq", "ne"]
LOGIC = ["and", "or", "xor"]


def gen_cmp(g):
    r = g.rng
    fams = g.families()
    fam = r.choice(sorted(fams))
    ua = r.choice(fams[fam])
    incompatible = r.random() < 0.15
    ub = r.choice(fams[r.choice([f for f in sorted(fams) if f != fam])]) if incompatible else r.choice(fams[fam])
    fa = Fraction(g.ujson(ua)["f"])
    fb = Fraction(g.ujson(ub)["f"])
    op = r.choice(CMP)
    exact = g.lane == "exact"
    dts = ["f8", "f4", "i8", "i4"] if exact else ["f8"]
    da = r.choice(dts)
    db = r.choice(dts)
    pyk = r.choice(["var", "var", "var", "qty", "num", "nd"])
    if exact:
        sa, sb = shapes_pair(r)
    else:
        n = r.choice([1, 3, 6])
        sa, sb = r.choice([([n], [n]), ([n], []), ([], [])])
    a = g.arr(sa, da, ua, small=True)
    avals = [Fraction(x) for x in a["data"]]
    if pyk in ("num", "nd"):
        # dimensionless right operand against a unit-carrying left operand raises (strict);
        # use a dimensionless left operand half of the time
        if r.random() < 0.6:
            # any dimensionless unit, scaled ones included (percent, degree, ...): the number is converted to it
            fam = "dimensionless"
            ua = r.choice(fams["dimensionless"])
            a = g.arr(sa, da, ua, small=True)
            avals = [Fraction(x) for x in a["data"]]
            fa = Fraction(g.ujson(ua)["f"])
        ub = ""
        fb = Fraction(1)
        incompatible = fam != "dimensionless"  # a unit-carrying left operand against a bare number raises
        if pyk == "num":
            sb = []
            db = r.choice(["i8", "f8"])
    nb = size(sb)
    bvals = []
    for i in range(nb):
        base = avals[i % len(avals)] if avals else Fraction(0)
        conv = base * fa / fb if not incompatible else base
        mode = r.random()
        if exact:
            if db in ("i4", "i8"):
                conv = Fraction(int(conv))
            if mode < 0.4:
                v = conv  # tie (exact after conversion when conv is representable)
            elif mode < 0.7:
                v = conv + r.choice([-1, 1]) * (1 if db in ("i4", "i8") else Fraction(1, 16))
            else:
                v = g.value(db, small=True)
            if db == "f4" and (v.denominator > 4096 or abs(v) > 2 ** 14):
                v = Fraction(int(v))
        else:
            d = r.choice([Fraction(1, 100), Fraction(1, 2), Fraction(-1, 100), Fraction(-1, 2)])
            v = conv * (1 + d) if conv != 0 else Fraction(r.choice([-1, 1]))
            v = Fraction(float(v))
            if db in ("i4", "i8"):
                v = Fraction(int(v))  # a Python int operand carries an integer value
        bvals.append(v)
    b = g.arr(sb, db, ub, values=bvals)
    prog = [{"op": "arr", "dst": 1, "v": a}]
    if pyk == "var":
        prog.append({"op": "arr", "dst": 2, "v": b})
        rhs = {"k": "var", "v": 2}
    else:
        rhs = {"k": "val", "py": pyk, "v": b}
    prog.append({"op": "bin", "dst": 3, "name": op, "a": 1, "rhs": rhs})
    prog.append({"op": "obs", "v": 3})
    prog.append({"op": "obs", "v": 1})
    return {"prog": prog, "lane": g.lane, "tags": ["cmp", op, pyk, str(ua != ub), str(incompatible)]}


def gen_logic(g):
    r = g.rng
    sa, sb = shapes_pair(r)
    op = r.choice(LOGIC + ["not"])
    prog = [{"op": "arr", "dst": 1, "v": g.arr(sa, "b", "")}]
    if op == "not":
        prog.append({"op": "un", "dst": 3, "name": "not", "a": 1})
    else:
        pyk = r.choice(["var", "var", "nd"])
        b = g.arr(sb, "b", "")
        if pyk == "var":
            prog.append({"op": "arr", "dst": 2, "v": b})
            rhs = {"k": "var", "v": 2}
        else:
            rhs = {"k": "val", "py": "nd", "v": b}
        prog.append({"op": "bin", "dst": 3, "name": op, "a": 1, "rhs": rhs})
    prog.append({"op": "obs", "v": 3})
    return {"prog": prog, "lane": "exact", "tags": ["logic", op]}


def gen_chain(g):
    """a selection built the way loading filters / sub-domain extraction build it:
    (a < x) & (b >= y) | ~(c == z)"""
    r = g.rng
    n = r.choice([1, 4, 7])
    fams = g.families()
    prog = []
    v = 0
    masks = []
    for _ in range(r.randint(2, 3)):
        fam = r.choice(sorted(fams))
        ua, ub = r.choice(fams[fam]), r.choice(fams[fam])
        v += 1
        prog.append({"op": "arr", "dst": v, "v": g.arr([n], "f8", ua, small=True)})
        a = v
        v += 1
        prog.append({"op": "bin", "dst": v, "name": r.choice(CMP), "a": a,
                     "rhs": {"k": "val", "py": "qty", "v": g.arr([], "f8", ub, small=True)}})
        masks.append(v)
    cur = masks[0]
    for m in masks[1:]:
        v += 1
        prog.append({"op": "bin", "dst": v, "name": r.choice(LOGIC), "a": cur, "rhs": {"k": "var", "v": m}})
        cur = v
    if r.random() < 0.5:
        v += 1
        prog.append({"op": "un", "dst": v, "name": "not", "a": cur})
        cur = v
    prog.append({"op": "obs", "v": cur})
    return {"prog": prog, "lane": g.lane, "tags": ["chain"]}


def nontrivial(case, impl_out):
    t = case["tags"]
    return t[0] != "cmp" or t[3] == "True"


def classify(prog, actual, expected, diff):
    names = [o.get("name") for o in prog if o["op"] in ("bin", "un")]
    return ("Array comparison/logic", "/".join(n for n in names if n))


def run(ctx):
    n = 900 if ctx.tier == "quick" else 20000
    ge = G(ctx.rng, ctx.osyris, "exact")
    gt = G(ctx.rng, ctx.osyris, "tol")
    cases = []
    for i in range(n):
        k = i % 10
        if k < 6:
            cases.append(gen_cmp(ge if i % 3 else gt))
        elif k < 8:
            cases.append(gen_logic(ge))
        else:
            cases.append(gen_chain(ge))
    out = run_programs(ctx, cases, nontrivial, known_classifier=classify)
    dist = {}
    for c in cases:
        k = ":".join(c["tags"][:2]) + ":" + c["lane"]
        dist[k] = dist.get(k, 0) + 1
    out.distribution = {"kind:op:lane": dist}
    out.rule = ("comparison of two operands whose values are related after unit conversion (exact ties, +-1 ulp-scale offsets, unrelated "
                "values) x six operators x operand kinds x dtypes x shapes x compatible/incompatible unit pairs; logical &,|,^,~ on boolean "
                "Arrays; chains of comparisons combined with logical operators as selections are built. non-trivial = operands in different "
                "units, or a logical/chain case; distinct by program hash")
    return out


def replay(ctx, path):
    return replay_core(ctx, path)
