"""C17 In-place updates, copies and views follow a fixed aliasing contract."""
from fractions import Fraction

from ..gencore import G, KEYS, replay_core, run_programs

TRUSTED = ["numpy view/copy semantics of basic vs advanced indexing and of `out=` (modelled by buffer/index lists)"]
ASSUMPTIONS = ["in-place results are representable in the target dtype (f8 targets; integer targets only with integer +,-,*)",
               "Vectors have components of one dtype"]

POW2 = [Fraction(1), Fraction(2), Fraction(4), Fraction(1, 2), Fraction(-1), Fraction(-2)]


def gen_program(g, length):
    r = g.rng
    prog = []
    nv = [0]

    def fresh():
        nv[0] += 1
        return nv[0]

    n = r.choice([1, 3, 5])
    fams = g.families()
    fam = r.choice(["length", "time", "mass"])
    units = fams[fam]
    arrays, vectors, groups, datasets = [], [], [], []
    meta = {}  # var -> (dtype, shape)
    ro = set()  # read-only handles: never the target of an in-place operator
    tgt_comps = {}  # vector var -> its component Array vars

    def new_array(shape=None, dt=None):
        shape = [n] if shape is None else shape
        dt = dt or r.choice(["f8", "f8", "f8", "i8", "f4"])
        v = fresh()
        prog.append({"op": "arr", "dst": v, "v": g.arr(shape, dt, r.choice(units), small=True)})
        arrays.append(v)
        meta[v] = (dt, shape)
        return v

    def new_vector():
        dt = r.choice(["f8", "f8", "i8"])
        shape = r.choice([[n], [n], []])
        u = r.choice(units)
        cs = []
        for _ in range(r.randint(1, 3)):
            c = fresh()
            prog.append({"op": "arr", "dst": c, "v": g.arr(shape, dt, u, small=True)})
            cs.append(c)
            arrays.append(c)
            meta[c] = (dt, shape)
        v = fresh()
        prog.append({"op": "vec", "dst": v, "comps": cs, "name": ""})
        vectors.append(v)
        meta[v] = (dt, shape)
        tgt_comps[v] = cs
        return v

    for _ in range(2):
        new_array()
    new_vector()
    for _ in range(2):
        gv = fresh()
        prog.append({"op": "dg_new", "dst": gv})
        groups.append(gv)
    dv = fresh()
    prog.append({"op": "ds_new", "dst": dv})
    datasets.append(dv)

    def rhs_for(target):
        dt, shape = meta.get(target, ("f8", [n]))
        opn = r.choice(["add", "sub", "mul", "div"])
        if dt in ("i8", "i4"):
            opn = r.choice(["add", "sub"])   # repeated integer products overflow int64
        kind = r.random()
        if opn in ("add", "sub"):
            u = r.choice(units) if r.random() < 0.85 else r.choice(fams["time" if fam != "time" else "mass"])
        else:
            u = r.choice(units + fams["time"] + [""])
        rdt = "i8" if dt in ("i8", "i4") else r.choice(["f8", "i8"])
        vals = None
        sh = r.choice([shape, []]) if shape is not None else []
        if opn in ("div", "mul"):   # powers of two keep long histories exactly representable
            sz = 1
            for d in sh:
                sz *= d
            vals = [r.choice(POW2) if rdt == "f8" else Fraction(r.choice([1, 2, 4, -1])) for _ in range(sz)]
        if kind < 0.5:
            return opn, {"k": "val", "py": r.choice(["qty", "arr"]), "v": g.arr(sh, rdt, u, small=True, values=vals)}
        if kind < 0.65 and opn in ("mul", "div"):
            return opn, {"k": "val", "py": "num", "v": g.arr([], rdt, "", small=True, values=vals[:1] if vals else None)}
        # another object of the pool as right operand (possibly aliasing the target)
        cand = [a for a in arrays if shape is not None and meta.get(a, (None, None))[1] in (shape, [])]
        if cand and opn in ("add", "sub"):
            return opn, {"k": "var", "v": r.choice(cand)}
        return opn, {"k": "val", "py": "arr", "v": g.arr(sh, rdt, u, small=True, values=vals)}

    for _ in range(length):
        k = r.random()
        if k < 0.28:
            tgt = r.choice([a for a in arrays if a not in ro])
            opn, rhs = rhs_for(tgt)
            d = tgt if r.random() < 0.8 else fresh()
            prog.append({"op": "bin", "dst": d, "name": opn, "a": tgt, "rhs": rhs, "inplace": True})
            if d != tgt:
                prog.append({"op": "same", "a": d, "b": tgt})
                arrays.append(d)
                meta[d] = meta.get(tgt, ("f8", [n]))
        elif k < 0.42:
            tgt = r.choice(vectors)
            opn, rhs = rhs_for(tgt)
            if rhs["k"] == "var" or r.random() < 0.4:
                cand = [v for v in vectors if meta[v][1] == meta[tgt][1]]
                rhs = {"k": "var", "v": r.choice(cand)} if opn in ("add", "sub") else rhs
            alias = r.random()
            if alias < 0.3 and meta[tgt][0] == "f8":
                # the right operand aliases the target: one of its own component Arrays (v *= v.x), or a Vector made of its
                # components in another order (v += Vector(v.y, v.x)); x op= y must still give x op y
                comps = tgt_comps.get(tgt)
                if comps:
                    if alias < 0.2:
                        opn = r.choice(["add", "sub", "mul"])
                        rhs = {"k": "var", "v": r.choice(comps)}
                        if opn == "mul" and r.random() < 0.5:
                            # ... or the raw ndarray of that component (v *= v.x.values): wrapped into an Array it still
                            # shares the component's buffer
                            rhs = {"k": "ndview", "v": rhs["v"]}
                    elif len(comps) > 1:
                        opn = r.choice(["add", "sub"])
                        perm = comps[:]
                        r.shuffle(perm)
                        u2 = fresh()
                        prog.append({"op": "vec", "dst": u2, "comps": perm, "name": ""})
                        vectors.append(u2)
                        meta[u2] = meta[tgt]
                        tgt_comps[u2] = perm
                        rhs = {"k": "var", "v": u2}
            d = tgt if r.random() < 0.8 else fresh()
            prog.append({"op": "bin", "dst": d, "name": opn, "a": tgt, "rhs": rhs, "inplace": True})
            if d != tgt:
                prog.append({"op": "same", "a": d, "b": tgt})
                vectors.append(d)
                meta[d] = meta[tgt]
        elif k < 0.52:
            src = r.choice(arrays + vectors + groups + datasets)
            d = fresh()
            deep = r.random() < 0.5
            prog.append({"op": "copy", "dst": d, "a": src, "deep": deep, "via": r.choice(["copy", "copy.copy"])})
            prog.append({"op": "shares", "a": d, "b": src})
            (arrays if src in arrays else vectors if src in vectors else groups if src in groups else datasets).append(d)
            if src in meta:
                meta[d] = meta[src]
        elif k < 0.62:
            src = r.choice([a for a in arrays if meta.get(a, (0, []))[1] == [n]] or arrays)
            d = fresh()
            ix = g.index(n, kinds=("slice", "slice", "mask", "fancy", "int"))
            get = {"op": "get", "dst": d, "a": src, "ix": ix}
            if src in ro or r.random() < 0.35:
                # read-only handle over the same data; its copies must still be independent, writable arrays
                get["ro"] = True
                ro.add(d)
            prog.append(get)
            prog.append({"op": "shares", "a": d, "b": src})
            arrays.append(d)
            meta[d] = (meta.get(src, ("f8", [n]))[0], None)
            if ix.get("k") == "slice" and ix.get("c") not in (None, 1) and d not in ro and meta[d][0] == "f8" and r.random() < 0.6:
                # a strided (non-contiguous) view updated in place twice: it must stay a view of the same buffer, the parent
                # sees both updates and a later update of the parent shows through the view
                for _ in range(2):
                    prog.append({"op": "bin", "dst": d, "name": "mul", "a": d, "inplace": True,
                                 "rhs": {"k": "val", "py": "num", "v": g.arr([], "i8", "", small=True, values=[Fraction(r.choice([2, 4, -1, -2]))])}})
                    prog.append({"op": "shares", "a": d, "b": src})
                prog.append({"op": "obs", "v": src})
                prog.append({"op": "obs", "v": d})
        elif k < 0.74:
            prog.append({"op": "dg_set", "g": r.choice(groups), "key": r.choice(KEYS), "v": r.choice(arrays + vectors)})
        elif k < 0.80:
            d = fresh()
            prog.append({"op": "dg_getkey", "dst": d, "g": r.choice(groups), "key": r.choice(KEYS)})
        elif k < 0.84:
            prog.append({"op": "ds_set", "d": r.choice(datasets), "key": r.choice(["mesh", "part"]), "v": r.choice(groups)})
        elif k < 0.90:
            v = r.choice(vectors)
            d = fresh()
            prog.append({"op": "comp", "dst": d, "a": v, "c": r.randint(0, 2)})
            arrays.append(d)
            meta[d] = meta[v]
        elif k < 0.95:
            a, b = r.choice(arrays + vectors), r.choice(arrays + vectors)
            prog.append({"op": "same", "a": a, "b": b})
            prog.append({"op": "shares", "a": a, "b": b})
        else:
            new_array() if r.random() < 0.6 else new_vector()
    seen = set()
    for v in (arrays + vectors + groups + datasets):
        if v not in seen:
            seen.add(v)
            prog.append({"op": "obs", "v": v})
    return prog


def nontrivial(case, impl_out):
    ops = case["prog"]
    return any(o["op"] == "bin" and o.get("inplace") for o in ops) and any(o["op"] in ("copy", "get", "dg_set", "comp") for o in ops)


def classify(prog, actual, expected, diff):
    vecs = {o["dst"] for o in prog if o["op"] == "vec"}
    if any(o["op"] == "bin" and o.get("inplace") and o["a"] in vecs for o in prog):
        return ("Vector in-place operators", "any")
    if any(o["op"] == "bin" and o.get("inplace") for o in prog):
        return ("Array in-place operators", "any")
    return ("copy/slice", "any")


def run(ctx):
    g = G(ctx.rng, ctx.osyris, "exact")
    n = 300 if ctx.tier == "quick" else 6000
    cases = [{"prog": gen_program(g, ctx.rng.randint(3, 25)), "lane": "exact"} for _ in range(n)]
    out = run_programs(ctx, cases, nontrivial, known_classifier=classify)
    ops = {}
    for c in cases:
        for o in c["prog"]:
            k = o["op"] + (":inplace" if o.get("inplace") else "") + (":deep" if o.get("deep") else "")
            ops[k] = ops.get(k, 0) + 1
    out.distribution = {"op_counts": ops}
    out.rule = ("histories (<= 25 ops) on a pool of Arrays (1-d and 0-d), 1-3 component Vectors, two Datagroups and a Dataset sharing them: "
                "in-place +,-,*,/ on Arrays and Vectors with Array/Quantity/number/pool-object right operands (incl. self-aliasing), copy / "
                "copy.copy / deepcopy of every kind of object, slices (views) and mask/fancy indexing (copies), insertion into groups, "
                "component access; identity (`is`) and memory sharing queried after each step, every object observed at the end. "
                "non-trivial = an in-place op together with a copy/slice/insert/component op; distinct by program hash")
    return out


def replay(ctx, path):
    return replay_core(ctx, path)
