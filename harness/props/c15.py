"""C15 The outcome of load() does not depend on earlier loads on the same dataset."""
import contextlib
import io
from fractions import Fraction

from .. import lean, loadrun, ramses
from ..framework import Outcome, case_hash
from .c01 import describe
from .c04 import gen_box, gen_hilbert_output

TRUSTED = ["the oracle for a history is a fresh RamsesDataset per call (the real library), next to the Lean LoadHistory model for the "
           "set of cpu files each call opens"]
ASSUMPTIONS = ["histories of 2-4 calls; arguments from templates: full, group subsets, variable subsets, value / position / level predicates, "
               "cpu_list, sortby, positional select"]


def templates(r, out):
    preds, _ = gen_box(r, out)
    allp = [n for n, _ in out["part"]["descriptor"]] if out["part"] else []
    t = [
        ("full", {}),
        ("positional_box", {"preds": preds, "positional": True}),
        ("box", {"preds": preds}),
        ("no_mesh", {"mesh_on": False}),
        ("no_part", {"part_on": False}),
        ("only_sink", {"mesh_on": False, "part_on": False}),
        ("mesh_vars", {"mesh_vars": ["density", "level", "position_x", "position_y", "position_z"]}),
        ("part_vars", {"part_vars": allp[:2]} if allp else {}),
        ("level_cap", {"preds": [{"var": "level", "op": "le", "value": max(1, out["levelmax"] - 1)}]}),
        ("value_pred", {"preds": [{"var": "density", "op": "gt", "value": Fraction(40) * out["unit_d"]}]}),
        # a selection that no cell satisfies: the call produces an empty mesh group, which replaces the one of an earlier call
        ("value_pred_none", {"preds": [{"var": "density", "op": "gt", "value": Fraction(10 ** 9) * out["unit_d"]}]}),
        ("cpu_list", {"cpu_list": sorted(r.sample(range(1, out["ncpu"] + 1), max(1, out["ncpu"] // 2)))}),
        ("sortby", {"sortby": {"part": "identity"}} if ("identity" in allp) else {}),
        ("grouplist_part", {"form": "grouplist", "mesh_on": False, "part_on": True, "sink_on": False}),
        ("sortby_sink", {"sortby": {"sink": "msink"}} if (out.get("sink") and out["sink"]["rows"]) else {}),
        # groups named in a list, the mesh among them (no dict for the mesh: nothing of an earlier dict-form call may survive)
        ("grouplist_mesh", {"form": "grouplist", "mesh_on": True, "part_on": False, "sink_on": False}),
        ("grouplist_mesh_part", {"form": "grouplist", "mesh_on": True, "part_on": True, "sink_on": False}),
    ]
    return t


def snapshot(osy, ds):
    return {name: loadrun.canon_group(osy, g) for name, g in ds.items()}, {k: ds.meta.get(k) for k in ("ncells", "nparticles", "lmax")}


def rows_of(group):
    for m in group:
        for c, vals, dt, sym in m["comps"]:
            return len(vals)
    return 0


def run(ctx):
    osy = ctx.osyris
    out_ = Outcome()
    r = ctx.rng
    nds = 5 if ctx.tier == "quick" else 25
    dist = {}
    for di in range(nds):
        out, _ = gen_hilbert_output(r, ncpu=r.choice([4, 8, 16, 32]), levelmin=r.choice([2, 3]), levelmax=r.choice([3, 4]), max_octs=40)
        # add particles and sinks to the hilbert-consistent output
        extra = ramses.gen_output(r, ndim=3, ncpu=out["ncpu"], levelmin=1, levelmax=1, nboundary=0, with_part=True, with_sink=True, exact=True)
        for _ in range(12):      # at least three sinks whose masses are not already in increasing order (so that sorting them shows)
            sk = extra["sink"]
            if sk and len(sk["rows"]) >= 3 and [row[1] for row in sk["rows"]] != sorted(row[1] for row in sk["rows"]) \
                    and len({row[1] for row in sk["rows"]}) == len(sk["rows"]):
                break
            extra["sink"] = ramses.gen_output(r, ndim=3, ncpu=1, levelmin=1, levelmax=1, nboundary=0, with_part=False, with_sink=True, exact=True)["sink"]
        out["part"], out["sink"] = extra["part"], extra["sink"]
        out["unit_d"], out["unit_l"], out["unit_t"], out["boxlen"] = out["unit_d"], out["unit_l"], out["unit_t"], out["boxlen"]
        tmpl = templates(r, out)
        by = dict((n, (n, q)) for n, q in tmpl)
        # histories that have carried state between calls before (CPU pre-selection, level cap, cpu_list, selections): always run
        must = [[by[a], by[b]] for a, b in (("box", "no_mesh"), ("positional_box", "grouplist_part"), ("box", "only_sink"),
                                             ("level_cap", "grouplist_part"), ("level_cap", "full"), ("cpu_list", "full"),
                                             ("cpu_list", "no_mesh"), ("value_pred", "no_part"), ("mesh_vars", "full"), ("box", "full"),
                                             ("sortby_sink", "full"), ("sortby_sink", "only_sink"), ("sortby", "full"),
                                             ("level_cap", "grouplist_mesh"), ("box", "grouplist_mesh_part"), ("cpu_list", "grouplist_mesh"),
                                             ("mesh_vars", "grouplist_mesh"), ("full", "value_pred_none"), ("box", "value_pred_none"))]
        if ctx.tier == "quick":
            hists = must + [[a, b] for a in r.sample(tmpl, 5) for b in r.sample(tmpl, 3)]
        else:
            hists = must + [[a, b] for a in tmpl for b in tmpl] + [[r.choice(tmpl) for _ in range(r.choice([3, 4]))] for _ in range(40)]
        with loadrun.Written(out) as w:
            fresh_cache = {}

            def fresh(req_key, req):
                if req_key not in fresh_cache:
                    res = loadrun.run_impl(osy, w, req, want_trace=False)
                    fresh_cache[req_key] = res
                return fresh_cache[req_key]

            for hist in hists:
                names = [h[0] for h in hist]
                k = "->".join(names)
                dist[names[0]] = dist.get(names[0], 0) + 1
                buf = io.StringIO()
                err = None
                produced = {}
                ds = None
                lines = []
                try:
                    with contextlib.redirect_stdout(buf):
                        ds = osy.RamsesDataset(w.nout, path=w.dir)
                    for name, req in hist:
                        res = loadrun.run_impl(osy, w, req, ds=ds, want_trace=False)
                        if res["err"]:
                            err = f"call {name}: {res['err']}"
                            break
                        lines.append(next((l for l in res["stdout"].splitlines() if l.startswith("Processing")), None))
                        fr = fresh(name, req)
                        if fr["err"]:
                            err = f"fresh {name}: {fr['err']}"
                            break
                        for gname in fr["groups"]:
                            produced[gname] = (name, fr["groups"][gname])
                except Exception as e:  # noqa: BLE001
                    err = type(e).__name__ + ": " + str(e)[:200]
                out_.evaluations += 1
                out_.compared += 1
                if len(set(names)) > 1:
                    out_.nontrivial.add(case_hash({"o": describe(out), "h": k, "d": di}))
                if len(out_.samples) < 3:
                    out_.samples.append({"output": describe(out), "history": [[n, loadrun.req_for_driver(q)] for n, q in hist]})
                # model: cpu files opened by each call
                reqs = [loadrun.req_for_driver(q) for _, q in hist]
                m = lean.run_driver([{"engine": "history", "output": ramses.to_json(out), "reqs": reqs}])[0]
                if not err and "model" in m:
                    for (name, req), line, cl in zip(hist, lines, m["model"]):
                        nfiles = int(line.split()[1]) if line else 0
                        if nfiles != len(cl):
                            out_.disagreements.append(({"output": describe(out), "history": k},
                                                       f"call {name}: '{line}' but the model opens {len(cl)} files"))
                            break
                v = err
                if not v:
                    groups, meta = snapshot(osy, ds)
                    for gname, (by, want) in produced.items():
                        if gname not in groups:
                            v = f"group {gname} (produced by {by}) is missing after {k}"
                            break
                        # derived variables are recomputed by every call from the groups present: compare the loaded variables
                        def strip(g):
                            return [(m2["key"], m2["kind"], m2["comps"]) for m2 in g if m2["key"] not in ("mass", "B_field")]
                        if strip(groups[gname]) != strip(want):
                            v = f"group {gname} after {k} differs from a fresh dataset's load({by})"
                            break
                    if not v:
                        extra_g = [gn for gn in groups if gn not in produced]
                        if extra_g:
                            v = f"groups {extra_g} present after {k} although no call produced them"
                    # counts in the metadata match the groups the *last* call loaded
                    last = fresh(hist[-1][0], hist[-1][1])["groups"]
                    lastq = hist[-1][1]
                    if not v and lastq.get("mesh_on", True) and "mesh" not in last:
                        # the last call was asked for the mesh and found no cell: the dataset must not go on showing the cells of
                        # an earlier call while the metadata says that none was loaded
                        rows = rows_of(groups["mesh"]) if "mesh" in groups else 0
                        if int(meta["ncells"]) != rows:
                            v = (f"meta ncells {meta['ncells']} after {k}, but the dataset shows a mesh group of {rows} rows "
                                 "(the last call was asked for the mesh)")
                    if not v and "mesh" in last and int(meta["ncells"]) != rows_of(groups["mesh"]):
                        v = f"meta ncells {meta['ncells']} but the mesh group just loaded has {rows_of(groups['mesh'])} rows"
                    if not v and "part" in last and int(meta["nparticles"]) != rows_of(groups["part"]):
                        v = f"meta nparticles {meta['nparticles']} but the part group just loaded has {rows_of(groups['part'])} rows"
                if v:
                    first_mesh_off = next((i for i, (n, q) in enumerate(hist) if q.get("mesh_on", True) is False), None)
                    cls = "mesh_off_after_preselection" if (first_mesh_off not in (None, 0)) else "other"
                    out_.violations.append({"what": v, "case": {"output": ramses.to_json(out), "history": [[n, loadrun.req_for_driver(q)] for n, q in hist]},
                                            "call_site": "RamsesDataset.load", "input_class": cls})
    out_.distribution = {"first_call": dist}
    out_.rule = ("one synthetic dataset (Hilbert-consistent ownership, 4..32 cpus, particles and sinks) per round; histories of 2-4 load() calls "
                 "from 14 argument templates (full, positional box, box, mesh off, part off, only sinks, variable lists, level cap, value "
                 "predicate, cpu_list, sortby on particles, sortby on sinks, group list); after each history every group equals the fresh-dataset result of the most recent "
                 "call that produced it, meta counts match the groups, and the number of files each call opens equals the LoadHistory model's. "
                 "non-trivial = the calls differ; distinct by case hash")
    return out_


def replay(ctx, path):
    print("re-run `check.py C15`")
    return 0
