"""C13 Loading a subset of groups or variables equals projecting the full load."""
from .. import lean, loadrun, ramses
from ..framework import Outcome, case_hash
from .c01 import describe

TRUSTED = ["same loader engine as C01 (synthetic writer, Lean encode, generated reader code, Spec leaf rows)"]
ASSUMPTIONS = ["variable subsets are given as lists, groups are switched off with False or left out of a group list (as the property states)"]


def all_mesh_vars(out):
    v = ["level", "cpu", "dx"] + ["position_" + c for c in "xyz"[: out["ndim"]]] + [n for n, _ in out["hydro_vars"]]
    if out["has_grav"]:
        v += ["grav_potential"] + ["grav_acceleration_" + c for c in "xyz"[: out["ndim"]]]
    v += [n for n, _ in out["rt_vars"]]
    return v


def gen_request(r, out):
    req = {}
    kind = r.choice(["groups_false", "groups_list", "mesh_vars", "part_vars", "both_vars", "mesh_vars", "partial_components", "empty_list"])
    if kind == "empty_list":
        # a variable list that came out empty (a computed intersection): nothing of that group is requested
        which = r.choice(["mesh", "part", "both"]) if out["part"] else "mesh"
        if which in ("mesh", "both"):
            req["mesh_vars"] = []
        if which in ("part", "both"):
            req["part_vars"] = []
        return req, kind
    if kind == "groups_false":
        for g in ("mesh", "part", "sink"):
            if r.random() < 0.4:
                req[g + "_on"] = False
    elif kind == "groups_list":
        req["form"] = "grouplist"
        on = [g for g in ("mesh", "part", "sink") if r.random() < 0.6] or ["mesh"]
        for g in ("mesh", "part", "sink"):
            req[g + "_on"] = g in on
    if kind in ("mesh_vars", "both_vars"):
        allv = all_mesh_vars(out)
        req["mesh_vars"] = [v for v in allv if r.random() < 0.5] or [r.choice(allv)]
        r.shuffle(req["mesh_vars"])
    if kind in ("part_vars", "both_vars") and out["part"]:
        allp = [n for n, _ in out["part"]["descriptor"]]
        req["part_vars"] = [v for v in allp if r.random() < 0.5] or [r.choice(allp)]
        if r.random() < 0.5 and len(allp) > 1:
            # leave out the first variable of the descriptor (per-variable bookkeeping must not hang on it)
            req["part_vars"] = [v for v in req["part_vars"] if v != allp[0]] or [allp[1]]
    if kind == "partial_components":
        allv = all_mesh_vars(out)
        keep = [v for v in allv if not v.endswith("_y")] if out["ndim"] >= 2 else allv
        req["mesh_vars"] = [v for v in keep if r.random() < 0.8] or ["density"]
    return req, kind


def project_check(impl_sub, impl_full, req):
    """requested variables of the subset load are the very arrays of the full load; nothing else is returned"""
    for grp, key in (("mesh", "mesh_vars"), ("part", "part_vars")):
        on = req.get(grp + "_on", True)
        if not on:
            if grp in impl_sub["groups"]:
                return f"group {grp} was switched off but is returned"
            continue
        sub, _ = loadrun.flatten_impl(impl_sub["groups"], grp)
        full, _ = loadrun.flatten_impl(impl_full["groups"], grp)
        wanted = req.get(key)
        fullflat = {}
        for k, v in full.items():
            fullflat[k] = v
        for k, (vals, dt, sym) in sub.items():
            base = k.split(".")[0]
            if grp == "mesh" and base in ("mass", "B_field"):
                continue
            # a vector of the full load may stay as scalar components in the subset load and vice versa
            cands = [k]
            if "." in k:
                b, c = k.split(".")
                cands += [f"{b}_{c}", b.replace("position", "position") + "_" + c]
            else:
                for c in "xyz":
                    if k.endswith("_" + c):
                        cands.append(k[:-2] + "." + c)
                    if ("_" + c + "_") in k:
                        cands.append(k.replace("_" + c + "_", "_", 1) + "." + c)
            hit = next((c for c in cands if c in fullflat), None)
            if hit is None:
                return f"{grp}[{k}] is not a variable of the full load"
            if fullflat[hit][0] != vals:
                return f"{grp}[{k}] differs from the full load's {hit}"
            if fullflat[hit][2] != sym:
                return f"{grp}[{k}] unit differs from the full load"
    return None


def run(ctx):
    osy = ctx.osyris
    out_ = Outcome()
    n = 36 if ctx.tier == "quick" else 900
    r = ctx.rng
    dist = {}
    for i in range(n):
        exact = (i % 4) != 3
        kw = {}
        if i % 9 == 4:
            # a descriptor whose names contain x-infixed and colliding entries
            nd = r.choice([2, 3])
            names = ["density"] + ["velocity_" + c for c in "xyz"[:nd]] + ["B_" + c + "_left" for c in "xyz"[:nd]] + ["density_max", "xray_flux"] + (
                # component letter followed by another x later in the name (momentum_x_flux, B_x_max): every x is a candidate position
                ["momentum_" + c + "_flux" for c in "xyz"[:nd]] + (["B_" + c + "_max" for c in "xyz"[:nd]] if r.random() < 0.5 else []))
            kw = {"ndim": nd, "hydro_vars": names, "exact": False}
            exact = False
        if i % 9 == 1:
            kw = dict(kw, ncpu=r.randint(2, 4))
        out = ramses.gen_output(r, max_octs=30, with_part=True if (i % 3 == 0 or i % 9 == 1) else None, **({"exact": exact} | kw))
        req, kind = gen_request(r, out)
        if i % 9 == 1 and out["part"] and len(out["part"]["descriptor"]) > 1:
            # several cpu files, a particle variable list without the first variable of the descriptor
            allp = [n for n, _ in out["part"]["descriptor"]]
            req, kind = {"part_vars": [v for v in allp[1:] if r.random() < 0.7] or [allp[1]]}, "part_vars_without_first"
        dist[kind] = dist.get(kind, 0) + 1
        with loadrun.Written(out) as w:
            impl = loadrun.run_impl(osy, w, req)
            full = loadrun.run_impl(osy, w, {}, want_trace=False)
            model, spec = lean.run_driver([loadrun.driver_case(out, req, "model", osy=osy), loadrun.driver_case(out, req, "spec", osy=osy)])
        out_.evaluations += 1
        out_.compared += 1
        if req:
            out_.nontrivial.add(case_hash({"o": describe(out), "r": loadrun.req_for_driver(req), "i": i}))
        if len(out_.samples) < 3:
            out_.samples.append({"output": describe(out), "request": {k: v for k, v in req.items()}})
        sink_on = req.get("sink_on", True)
        d = None
        if impl["err"]:
            d = "implementation raised " + impl["err"]
        elif "err" in model:
            d = "model: " + model["err"]
        else:
            d = (loadrun.compare_group(out, impl["groups"], "mesh", model, exact)
                 or loadrun.compare_group(out, impl["groups"], "part", model, exact)
                 or loadrun.compare_sink(out, impl["groups"], model, exact, sink_on)
                 or loadrun.compare_trace(impl.get("trace"), model))
        if d:
            out_.disagreements.append(({"output": describe(out), "request": loadrun.req_for_driver(req)}, d))
        v = None
        if impl["err"]:
            v = "load raised " + impl["err"]
        elif full["err"]:
            v = "full load raised " + full["err"]
        else:
            v = (project_check(impl, full, req)
                 or loadrun.compare_spec(out, impl["groups"], "mesh", spec, exact)
                 or loadrun.compare_spec(out, impl["groups"], "part", spec, exact)
                 or loadrun.compare_sink(out, impl["groups"], spec, exact, sink_on))
        if v:
            out_.violations.append({"what": v, "case": {"output": ramses.to_json(out), "request": loadrun.req_for_driver(req), "form": req.get("form")},
                                    "call_site": "Loader.load / utils.make_vector_arrays", "input_class": kind})
    # witness: a scalar whose name equals the merged name of a component family is overwritten
    wit = ramses.gen_output(r, ndim=3, ncpu=1, levelmin=1, levelmax=1, nboundary=0, exact=True,
                            hydro_vars=["density", "velocity_x", "velocity_y", "velocity_z", "velocity"],
                            with_grav=False, with_rt=False, with_part=False, with_sink=False)
    with loadrun.Written(wit) as w:
        impl = loadrun.run_impl(osy, w, {}, want_trace=False)
    out_.evaluations += 1
    if not impl["err"]:
        cols, order = loadrun.flatten_impl(impl["groups"], "mesh")
        kinds = {k: kind for k, kind, _ in order}
        if kinds.get("velocity") == "vec":
            out_.violations.append({"what": "the scalar variable 'velocity' is overwritten by the vector merged from velocity_x/y/z (a variable is lost by the merge)",
                                    "case": {"hydro_vars": [v for v, _ in wit["hydro_vars"]]},
                                    "call_site": "utils.make_vector_arrays", "input_class": "merge_name_collision"})
    # witness: a name with two component positions whose families are both complete is deleted twice (KeyError)
    wit2 = ramses.gen_output(r, ndim=2, ncpu=1, levelmin=1, levelmax=1, nboundary=0, exact=True,
                             hydro_vars=["density", "T_x_x", "T_x_y", "T_y_x"],
                             with_grav=False, with_rt=False, with_part=False, with_sink=False)
    with loadrun.Written(wit2) as w:
        impl = loadrun.run_impl(osy, w, {}, want_trace=False)
    out_.evaluations += 1
    if impl["err"]:
        out_.violations.append({"what": "a descriptor with the components T_x_x, T_x_y, T_y_x (a name with two component positions, both families "
                                        "complete) cannot be loaded: " + impl["err"] + " (make_vector_arrays deletes T_x_x twice)",
                                "case": {"hydro_vars": [v for v, _ in wit2["hydro_vars"]]},
                                "call_site": "utils.make_vector_arrays", "input_class": "merge_shared_component"})
    out_.distribution = {"request_kinds": dist}
    out_.rule = ("outputs as in C01 (plus particles and sinks) x requests: groups switched off with False, group lists, random variable "
                 "lists over the amr/hydro/grav/rt/part descriptors (shuffled), partial component sets, descriptors with x-infixed names "
                 "(B_x_left, density_max, xray_flux, momentum_x_flux, B_x_max). Each subset load is compared with the model, with the projection of a full load of "
                 "the same files by the real loader (identical arrays and units), and with the Spec. non-trivial = a non-empty request; "
                 "distinct by case hash")
    return out_


def replay(ctx, path):
    print("re-run `check.py C13` (cases are stored as abstract outputs + requests in the replay file)")
    return 0
