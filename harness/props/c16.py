"""C16 Sub-domain extraction returns exactly the rows inside the region."""
from fractions import Fraction

from ..gencore import G, replay_core, run_programs

TRUSTED = ["numpy sqrt in Vector.norm: the sphere test r < R is modelled as r^2 < R^2 (R > 0)"]
ASSUMPTIONS = ["positions are Vectors; radius and box sizes are 0-d (Array or Quantity)",
               "tolerant lane keeps rows at least 1% away from the boundary"]

PYTH = [(3, 4, 0, 5), (6, 8, 0, 10), (2, 3, 6, 7), (1, 2, 2, 3), (4, 4, 7, 9), (0, 5, 12, 13), (8, 9, 12, 17)]


def gen_program(g, ndim=None):
    r = g.rng
    exact = g.lane == "exact"
    lens = g.families()["length"]
    ndim = ndim or r.choice([2, 3, 3, 3])
    prog = []
    nv = [0]

    def fresh():
        nv[0] += 1
        return nv[0]

    def vec(rows_vals, unit, name=""):
        cs = []
        for c in range(ndim):
            v = fresh()
            prog.append({"op": "arr", "dst": v, "v": g.arr([len(rows_vals)], "f8", unit, values=[rv[c] for rv in rows_vals])})
            cs.append(v)
        v = fresh()
        prog.append({"op": "vec", "dst": v, "comps": cs, "name": name})
        return v

    upos = r.choice(lens)
    uorg = r.choice(lens)
    urad = r.choice(lens)
    fpos, forg, frad = (Fraction(g.ujson(u)["f"]) for u in (upos, uorg, urad))
    # physical origin and radius (in root units), chosen so that conversions stay exact in the exact lane
    org_phys = [Fraction(r.randint(-8, 8)) for _ in range(ndim)]
    R_phys = Fraction(r.choice([5, 10, 7, 3, 9, 13, 17, 4]))
    n = r.choice([0, 1, 4, 9])

    def rows(count, f=None):
        f = fpos if f is None else f
        out = []
        for _ in range(count):
            m = r.random()
            if exact and m < 0.35:
                # exactly on the sphere / box boundary (pythagorean offsets scaled to R)
                cand = [p for p in PYTH if p[3] == R_phys]
                if cand:
                    p = list(r.choice(cand)[:3])
                    r.shuffle(p)
                    off = [Fraction(s * r.choice([-1, 1])) for s in p][:ndim]
                    if ndim == 2 and sum(x * x for x in off) != R_phys * R_phys:
                        off = [Fraction(R_phys), Fraction(0)]
                else:
                    off = [R_phys / 2 * r.choice([-1, 1]) for _ in range(ndim)]  # on the box faces
            elif m < 0.7:
                off = [Fraction(r.randint(-4, 4)) * R_phys / 8 for _ in range(ndim)]
            else:
                off = [Fraction(r.randint(-30, 30)) for _ in range(ndim)]
            if not exact:
                off = [o * Fraction(101, 100) + Fraction(1, 7) for o in off]
            out.append([(o + c) / f for o, c in zip(off, org_phys)])
        return out

    ds = fresh()
    prog.append({"op": "ds_new", "dst": ds})
    mesh_rows = rows(n)
    layout = r.choice(["mesh+part", "mesh+sink_same", "mesh+sink_other", "part_only", "mesh_only", "nopos_first"])
    def group(name, rws, with_pos=True, extra=2, unit=None):
        gv = fresh()
        prog.append({"op": "dg_new", "dst": gv})
        if with_pos:
            prog.append({"op": "dg_set", "g": gv, "key": "position", "v": vec(rws, unit or upos)})
        for i in range(extra):
            v = fresh()
            u, _ = g.unit(r.choice(["mass", "time", "dimensionless"]))
            prog.append({"op": "arr", "dst": v, "v": g.arr([len(rws)], r.choice(["f8", "i8"]), u,
                                                       values=[Fraction(1000 * (i + 1) + k) for k in range(len(rws))])})
            prog.append({"op": "dg_set", "g": gv, "key": "q%d" % i, "v": v})
        if r.random() < 0.5:
            prog.append({"op": "dg_set", "g": gv, "key": "velocity", "v": vec([[Fraction(7 * k + c) for c in range(ndim)] for k in range(len(rws))], "vl1/vt1" if exact else "km/s")})
        prog.append({"op": "ds_set", "d": ds, "key": name, "v": gv})
        return gv

    if layout == "nopos_first":
        group("sink", [[Fraction(0)] * ndim] * n, with_pos=False)
    if layout != "part_only":
        group("mesh", mesh_rows)
    if layout in ("mesh+part", "part_only"):
        # every group carries its own position unit (e.g. after a .to() on one group): the region is converted per group
        upart = r.choice(lens) if r.random() < 0.7 else upos
        # as many particles as cells now and then: a group with its own positions is located by them, whatever its row count
        npart = n if (n > 0 and r.random() < 0.4) else r.choice([0, 2, 5])
        group("part", rows(npart, Fraction(g.ujson(upart)["f"])), unit=upart)
    if layout == "mesh+sink_same":
        group("sink", [[Fraction(0)] * ndim] * n, with_pos=False)
    if layout == "mesh+sink_other":
        group("sink", [[Fraction(0)] * ndim] * (n + 1), with_pos=False)
    prog.append({"op": "ds_meta_set", "d": ds, "key": "time", "val": "3"})
    org = vec([[c / forg for c in org_phys]], uorg)
    # origin must be a 0-d Vector to broadcast against every group: rebuild it as 0-d
    prog = prog[:-(ndim + 1)]
    cs = []
    for c in range(ndim):
        v = fresh()
        prog.append({"op": "arr", "dst": v, "v": g.arr([], "f8", uorg, values=[org_phys[c] / forg])})
        cs.append(v)
    org = fresh()
    prog.append({"op": "vec", "dst": org, "comps": cs})
    out = fresh()
    kind = r.choice(["sphere", "box"])
    pyk = r.choice(["qty", "arr"])
    if kind == "sphere":
        rad = {"k": "val", "py": pyk, "v": g.arr([], "f8", urad, values=[R_phys / frad])}
        if r.random() < 0.1:
            rad = {"k": "val", "py": pyk, "v": g.arr([], "f8", "vt1" if exact else "s", values=[Fraction(1)])}
        prog.append({"op": "extract_sphere", "dst": out, "d": ds, "radius": rad, "origin": org})
    else:
        sizes = [{"k": "val", "py": pyk, "v": g.arr([], "f8", urad, values=[R_phys * r.choice([1, 1, 2]) / frad])} for _ in range(3)]
        prog.append({"op": "extract_box", "dst": out, "d": ds, "dx": sizes[0], "dy": sizes[1], "dz": sizes[2], "origin": org})
    prog.append({"op": "obs", "v": out})
    prog.append({"op": "obs", "v": ds})
    prog.append({"op": "shares", "a": out, "b": ds})
    return {"prog": prog, "lane": g.lane, "tags": [kind, layout, str(ndim), str(n)]}


def nontrivial(case, impl_out):
    return case["tags"][3] != "0"


def classify(prog, actual, expected, diff):
    kind = "extract_sphere" if any(o["op"] == "extract_sphere" for o in prog) else "extract_box"
    ndim = max((len(o["comps"]) for o in prog if o["op"] == "vec"), default=0)
    if kind == "extract_sphere" and ndim == 1:
        return (kind, "one_component_positions")
    return (kind, "any")


def check_1d_sphere(ctx, out, g):
    """Witness: with 1-component positions the 'distance' is the signed offset (Vector.norm of a
    1-component Vector, see C09), so a row far on the negative side is kept."""
    import numpy as np

    osy = ctx.osyris
    from osyris.spatial import extract_sphere

    ds = osy.Dataset()
    grp = osy.Datagroup()
    grp["position"] = osy.Vector(osy.Array(np.array([-5.0, 0.25, 5.0]), unit="vl1"))
    ds["mesh"] = grp
    org = osy.Vector(osy.Array(np.array(0.0), unit="vl1"))
    out.evaluations += 1
    try:
        sub = extract_sphere(ds, radius=osy.Array(1.0, unit="vl1"), origin=org)
        kept = [float(x) for x in np.atleast_1d(sub["mesh"]["position"].x.values)] if "mesh" in sub else []
    except Exception as e:  # noqa: BLE001
        kept = "error: " + type(e).__name__
    if kept != [0.25]:
        out.violations.append({"what": f"extract_sphere(radius=1, origin=0) on 1-D positions [-5, 0.25, 5] keeps {kept} instead of [0.25]",
                               "case": {"positions": [-5.0, 0.25, 5.0], "radius": 1.0, "origin": 0.0},
                               "call_site": "extract_sphere", "input_class": "one_component_positions"})


def run(ctx):
    n = 400 if ctx.tier == "quick" else 8000
    ge = G(ctx.rng, ctx.osyris, "exact")
    gt = G(ctx.rng, ctx.osyris, "tol")
    cases = [gen_program(ge if i % 3 else gt) for i in range(n)]
    out = run_programs(ctx, cases, nontrivial, known_classifier=classify)
    check_1d_sphere(ctx, out, ge)
    dist = {}
    for c in cases:
        k = ":".join(c["tags"][:3]) + ":" + c["lane"]
        dist[k] = dist.get(k, 0) + 1
    out.distribution = {"kind:layout:ndim:lane": dist}
    out.rule = ("datasets built by hand: mesh / part / sink groups with and without own positions (2-D and 3-D Vectors), extra Arrays and "
                "Vectors, row counts 0..9, positions (per group) / origin / radius / sizes in different length units; rows placed exactly on the sphere "
                "(pythagorean offsets) and on the box faces in the exact lane, regions containing no / some / all rows, incompatible radius "
                "units; result, input dataset and memory sharing observed. non-trivial = mesh has rows; distinct by program hash")
    return out


def replay(ctx, path):
    return replay_core(ctx, path)
