"""C19 Plot calls do not modify their inputs; per-layer options override call options.

Real implementation: osyris.map / histogram2d / histogram1d / scatter / plot called in sequences of
2-4 calls that share argument objects (Layers built with `Datagroup.layer(key, **opts)`, option
dicts, a resolution dict, window Quantities, an origin Vector, limits, the Datagroup and its
Arrays / Vectors), and `parse_layer` / `Layer.update` called directly.
Lean side: OsyrisModel/LayerOpts.lean through the "opts" engine (Driver/Opts.lean).
  mode "model": the heap-level algorithm on the tables extracted from the source, with the variant
                of plot/map.py detected by c19_extract.map_policies (resolution dict written in
                place or copied; depth reduction taken from the call or from the layer)
                -> tie (b), impl vs model-as-coded (disagreements)
  mode "spec" : nothing the caller owns changes; every call returns what it returns on its own;
                option = layer's value if set, else the call's -> impl vs Spec (violations)
Checks per call: deep snapshot of every argument object before / after (values, units, names, dict
contents and key order, Layer fields and kwargs, identity of members); the result compared with the
same call made on a fresh world (history independence); `Plot.layers[k]` mode / params / norm and
the reduction visible in the data compared with model and Spec."""
import json
import os
from fractions import Fraction

from .. import c19_extract
from ..framework import Outcome, case_hash
from . import c19_impl as impl
from .c19_lean import driver_kind, run_opts

TRUSTED = [
    "matplotlib: only what is handed to it is observed (Plot.layers[k]['params'], the arguments of Axes.hist); "
    "two optional observation points wrapped from the harness, no source change: osyris.plot.map.evaluate_on_grid "
    "(pixel grid shape = depth resolution of a thick map) and matplotlib.axes.Axes.hist",
    "the token encoding of option values (c19_impl.decode_* / encode_value): by identity for objects the world owns",
    "numpy evaluates the reductions; the reduction applied to a layer is recognised by comparing the data with the same "
    "call made with a bare layer and an explicit call-level operation",
]
ASSUMPTIONS = [
    "keys of a call's **kwargs are pairwise different (Python guarantees it) and are not names of parameters of the entry point",
    "an `ax` argument and matplotlib objects given as option values while plot=True are outside the frame claim "
    "(matplotlib autoscaling fills the unset limits of a norm object it is given; a limit that was set is inside the claim); with plot=False they are inside",
    "thick maps are called with an explicit window (dx, dz): the model's depth resolution needs the window extents",
    "resolutions are positive; the depth-resolution comparison is skipped within 1e-9 of a rounding tie",
    "Layer.update fills its Layer in place by design; its argument values are covered by the frame claim, `self` is not",
]

MAP_OPS = ["sum", "mean", "max", "min"]
H2_OPS = ["sum", "mean"]
IMG_KW = {"cmap": ["magma", "viridis", "jet"], "alpha": ["1/2", "1/4", "3/4"], "zorder": ["3", "5"], "cbar": ["False", "True"]}
COMMON_KW = {"alpha": ["1/2", "1/4", "3/4"], "zorder": ["3", "5"], "label": ["first", "second"]}   # valid for pcolormesh and hist alike
H1_KW = {"alpha": ["1/2", "1/4"], "label": ["first", "second"], "color": ["r", "g", "k"], "histtype": ["bar", "step"]}
SC_KW = {"marker": ["x", "o", "s"], "alpha": ["1/2", "1/4"], "cmap": ["magma", "viridis"], "cbar": ["False", "True"]}
PL_KW = {"lw": ["2", "1/2"], "ls": ["--", ":"], "alpha": ["1/2", "1/4"], "marker": ["o", "."]}
FIELD_VALUES = {
    "mode": ["image", "contourf", "contour"],
    "norm": ["log", "linear", "LOG", "symlog", "Linear"],
    "vmin": ["1/2", "1/8", "1/4"],          # below every value a layer can show ...
    "vmax": ["64", "128", "256"],           # ... and above the smallest one: any pair renders
    "bins": ["4", "7", "12"],
    "weights": ["mass", "density", "temperature"],
}
LEVELS = ["neither", "layer", "call", "both"]


# --------------------------------------------------------------------------------------------
# case -> Lean
# --------------------------------------------------------------------------------------------
def lean_layer(opts):
    opts = opts or {}
    d = {f: opts.get(f) for f in impl.FIELDS}
    d["kwargs"] = [[k, v] for k, v in opts.get("kwargs") or []]
    return d


def lean_fields(opts):
    opts = opts or {}
    return {f: opts.get(f) for f in impl.FIELDS}


def optdict_pairs(opts):
    """an option dict as Python holds it: named options and extra options in one dict"""
    opts = opts or {}
    return [[f, opts[f]] for f in impl.FIELDS if opts.get(f) is not None] + [[k, v] for k, v in opts.get("kwargs") or []]


def call_for_model(fn, opts):
    """the call-level options the model sees: scatter / plot take every key as an extra option except the
    ones their signature names"""
    opts = opts or {}
    if fn in ("scatter", "plot"):
        return {"kwargs": [[k, v] for k, v in opts.get("kwargs") or []]}
    return lean_layer(opts)


def layout(case):
    """addresses: layer i -> kwargs dict at 2i, Layer at 2i+1; then the option dicts; then the
    resolution dict; then blank Layers standing for bare Arrays / the counting layer"""
    nl = len(case.get("layers") or [])
    no = len(case.get("optdicts") or [])
    addr = {"layer": [2 * i + 1 for i in range(nl)], "opt": [2 * nl + k for k in range(no)]}
    nxt = 2 * nl + no
    addr["res"] = None
    if case.get("res") is not None:
        addr["res"] = nxt
        nxt += 1
    addr["next"] = nxt
    return addr


def lean_seq(case, mode, policies):
    addr = layout(case)
    heap = []
    for l in case.get("layers") or []:
        o = l.get("opts") or {}
        heap.append({"t": "dict", "d": [[k, v] for k, v in o.get("kwargs") or []]})
        heap.append({"t": "layer", "f": lean_fields(o), "kw": len(heap) - 1})
    for o in case.get("optdicts") or []:
        heap.append({"t": "dict", "d": optdict_pairs(o)})
    if case.get("res") is not None:
        heap.append({"t": "res", "d": [[k, int(v)] for k, v in case["res"]]})
    calls = []
    blanks = []
    for c in case["calls"]:
        fn = c["fn"]
        layers = []
        for i in c.get("layers") or []:
            if isinstance(i, int):
                layers.append(addr["layer"][i])
            elif fn == "map":
                layers.append(10 ** 6)        # a bare Array handed to map: not a Layer
            else:
                blanks.append(1)
                layers.append(addr["next"] + 2 * (len(blanks) - 1) + 1)
        if fn == "histogram2d" and not (c.get("layers") or []):
            blanks.append(1)                   # the counting layer histogram2d makes for itself
            layers.append(addr["next"] + 2 * (len(blanks) - 1) + 1)
        opts = case["optdicts"][c["opts"]] if c.get("opts") is not None else {}
        res = c.get("res")
        win = case.get("win") or {}
        wx = win.get(c.get("dx")) if c.get("dx") else "1"
        wy = win.get(c.get("dy")) if c.get("dy") else wx
        wz = win.get(c.get("dz")) if c.get("dz") else wx
        calls.append({"fn": fn, "layers": layers if fn in ("map", "histogram2d", "histogram1d") else [],
                      "opts": call_for_model(fn, opts),
                      "res": None if res is None else ({"ref": addr["res"]} if res == "shared" else int(res)),
                      "thick": bool(c.get("dz")), "wx": wx, "wy": wy, "wz": wz, "plot": bool(c.get("plot"))})
    for _ in blanks:
        heap.append({"t": "dict", "d": []})
        heap.append({"t": "layer", "f": lean_fields({}), "kw": len(heap) - 1})
    line = {"engine": "opts", "op": "seq", "mode": mode, "heap": heap, "calls": calls}
    if mode == "model":
        line["res_policy"] = policies["resolution"]
        line["op_policy"] = policies["operation"]
    return line


def lean_parse(case, mode):
    return {"engine": "opts", "op": "parse", "mode": mode, "what": case["what"],
            "layer": lean_layer(case["layer"]), "call": lean_layer(case["call"])}


def heap_view(case, step_heap):
    """the Lean heap after a call, in the shape of c19_impl.store_tokens"""
    addr = layout(case)
    layers = []
    for i in range(len(case.get("layers") or [])):
        layers.append({"fields": step_heap[2 * i + 1]["f"], "kwargs": step_heap[2 * i]["d"]})
    return {"layers": layers, "optdicts": [step_heap[a]["d"] for a in addr["opt"]],
            "res": None if addr["res"] is None else step_heap[addr["res"]]["d"]}


# --------------------------------------------------------------------------------------------
# the reduction visible in the data
# --------------------------------------------------------------------------------------------
class Refs:
    """reference runs: the same geometry with one bare layer and an explicit call-level operation"""

    def __init__(self, osy):
        self.osy = osy
        self.cache = {}

    def data(self, case, call, key, op, used):
        sig = json.dumps([call["fn"], key, op, used, {k: call.get(k) for k in ("dx", "dy", "dz", "origin", "direction", "x", "y", "limits", "logx", "logy")},
                          case.get("win"), case.get("origin"), case.get("limits")], sort_keys=True)
        if sig in self.cache:
            return self.cache[sig]
        sub = {"layers": [{"key": key, "opts": {}}], "optdicts": [{"operation": op}], "win": case.get("win"),
               "origin": case.get("origin"), "limits": case.get("limits"), "res": None}
        c = {k: v for k, v in call.items() if k not in ("layers", "opts", "res", "plot")}
        c.update(layers=[0], opts=0, plot=False)
        w = impl.build_world(self.osy, sub)
        if call["fn"] == "map":
            w.res = {k: v for k, v in zip("xyz", used) if v is not None}
            c["res"] = "shared"
        else:
            w.res = {"x": used[0], "y": used[1]}
            c["res"] = "shared"
        r = impl.run_call(w, c)
        out = None
        if r["err"] is None and r["layers"]:
            out = (r["layers"][0]["data"], r["layers"][0]["unit"])
        self.cache[sig] = out
        return out

    def observed_ops(self, case, call, key, layer_out, used):
        ops = MAP_OPS if call["fn"] == "map" else H2_OPS
        hit = []
        for op in ops:
            ref = self.data(case, call, key, op, used)
            if ref is not None and ref[1] == layer_out["unit"] and impl.arr_equal(ref[0], layer_out["data"]):
                hit.append(op)
        return hit


# --------------------------------------------------------------------------------------------
# running one sequence on the real implementation
# --------------------------------------------------------------------------------------------
def run_sequence(osy, case, probe, isolated=True):
    """[{result, diffs (deep snapshot before/after), store (token view after), iso (same call on a fresh world)}]"""
    w = impl.build_world(osy, case)
    steps = []
    for k, call in enumerate(case["calls"]):
        before = impl.snapshot(w)
        res = impl.run_call(w, call, probe)
        after = impl.snapshot(w)
        step = {"result": res, "diffs": impl.snapshot_diff(before, after), "store": impl.store_tokens(w)}
        if isolated:
            w2 = impl.build_world(osy, case)
            step["iso"] = impl.run_call(w2, call, probe)
        steps.append(step)
    return steps


def layer_key(case, call, k):
    ls = call.get("layers") or []
    if k < len(ls):
        i = ls[k]
        return case["layers"][i]["key"] if isinstance(i, int) else i[4:]
    return None


def frame_class(fn, root, path):
    if root == "resolution":
        return f"{fn}_writes_resolution_dict"
    if root == "layers":
        return f"{fn}_modifies_layer_kwargs" if ".kwargs" in path else f"{fn}_modifies_layer"
    if root == "option_dicts":
        return f"{fn}_modifies_option_dict"
    if root == "datagroup":
        return f"{fn}_modifies_data"
    if root == "identity":
        return f"{fn}_replaces_member_object"
    return f"{fn}_modifies_{root}"


def near_tie(case, call, nx, ny):
    if not (call.get("dz") and nx and ny):
        return False
    win = case.get("win") or {}
    wx = Fraction(win[call["dx"]])
    wy = Fraction(win[call["dy"]]) if call.get("dy") else wx
    wz = Fraction(win[call["dz"]])
    q = wz / (Fraction(1, 2) * (wx / nx + wy / ny))
    fr = q - (q.numerator // q.denominator)
    return abs(fr - Fraction(1, 2)) < Fraction(1, 10 ** 9)


def check_sequence(osy, case, model, spec, steps, refs, out=None):
    """-> (violations, disagreements, stats)"""
    viol, dis = [], []
    stats = {"ops_checked": 0, "ops_ambiguous": 0, "near_tie": 0, "nz_checked": 0}
    initial = None
    for k, (call, st) in enumerate(zip(case["calls"], steps)):
        fn = call["fn"]
        site = impl.SITES[fn]
        res = st["result"]
        m = model["steps"][k]
        s = spec["steps"][k]
        tag = f"call {k} ({fn})"
        plot_lane = bool(call.get("plot")) or fn in ("histogram1d", "scatter", "plot")
        # ---------------- frame
        for root, path, a, b in st["diffs"]:
            if root == "norm_objects" and plot_lane and str(a).strip("'") == "None":
                continue                      # ASSUMPTIONS: matplotlib autoscaling fills the *unset* limits of a norm object it is given
            viol.append({"what": f"{tag} changed an argument object: {path}: {a} -> {b}", "case": case, "call_index": k,
                         "call_site": site, "input_class": frame_class(fn, root, path),
                         "expected": "argument objects unchanged", "actual": {"path": path, "before": a, "after": b}})
        hv = heap_view(case, m["heap"])
        if hv != st["store"]:
            dis.append((case, f"{tag}: argument objects after the call: impl {json.dumps(st['store'])[:400]} vs model {json.dumps(hv)[:400]}"))
        extra = [d for d in st["diffs"] if d[0] not in ("resolution", "layers", "option_dicts")
                 and not (d[0] == "norm_objects" and plot_lane and str(d[2]).strip("'") == "None")]
        if extra:
            dis.append((case, f"{tag}: impl changed {extra[0][1]}, which the model leaves alone"))
        # ---------------- errors
        merr = m["out"]["err"]
        serr = s["out"]["err"]
        if plot_lane and merr is None and serr is None and res["err"] and (res["err"] == "ValueErr" or res["err"].startswith("Other")):
            # matplotlib refused to draw (limits vs data, an option the artist does not take): not an option-handling
            # outcome; the frame checks above still apply
            stats["render_errors"] = stats.get("render_errors", 0) + 1
            continue
        if (res["err"] or None) != merr and not (res["err"] and merr and res["err"].startswith("Other")):
            dis.append((case, f"{tag}: impl error {res['err']} ({res.get('msg', '')}) vs model {merr}"))
        if res["err"] is None and serr is not None or (res["err"] is not None and serr is None):
            viol.append({"what": f"{tag}: impl error {res['err']} ({res.get('msg', '')}) where the Spec gives {serr}", "case": case,
                         "call_index": k, "call_site": site,
                         "input_class": f"{fn}_error_depends_on_history" if k > 0 else f"{fn}_unexpected_error",
                         "expected": {"err": serr}, "actual": {"err": res["err"]}})
        # ---------------- history independence of the data
        if "iso" in st:
            same, why = impl.results_equal(res, st["iso"])
            if not same:
                stale = fn == "map" and call.get("res") == "shared" and call.get("dz")
                viol.append({"what": f"{tag}: the result differs from the same call made on fresh copies of the arguments ({why})",
                             "case": case, "call_index": k, "call_site": site,
                             "input_class": "map_stale_depth_resolution" if stale else f"{fn}_result_depends_on_history",
                             "expected": impl.summarise(st["iso"]), "actual": impl.summarise(res)})
        if res["err"] is not None:
            continue
        # ---------------- resolution used
        if fn in ("map", "histogram2d"):
            for q in ("nx", "ny"):
                if merr is None and res[q] != m["out"][q]:
                    dis.append((case, f"{tag}: {q} impl {res[q]} vs model {m['out'][q]}"))
                if serr is None and res[q] != s["out"][q]:
                    viol.append({"what": f"{tag}: {q} = {res[q]}, Spec {s['out'][q]}", "case": case, "call_index": k, "call_site": site,
                                 "input_class": f"{fn}_resolution", "expected": s["out"][q], "actual": res[q]})
            if fn == "map" and call.get("dz") and res["nz"] is not None:
                if near_tie(case, call, res["nx"], res["ny"]):
                    stats["near_tie"] += 1
                else:
                    stats["nz_checked"] += 1
                    if merr is None and res["nz"] != m["out"]["nz"]:
                        dis.append((case, f"{tag}: depth resolution impl {res['nz']} vs model {m['out']['nz']}"))
                    if serr is None and res["nz"] != s["out"]["nz"]:
                        viol.append({"what": f"{tag}: depth resolution {res['nz']}, the call on its own uses {s['out']['nz']}", "case": case,
                                     "call_index": k, "call_site": site, "input_class": "map_stale_depth_resolution",
                                     "expected": s["out"]["nz"], "actual": res["nz"]})
        # ---------------- per layer: options as merged
        for which, ref_out, sink in (("model", m["out"], "dis"), ("Spec", s["out"], "viol")):
            if ref_out["err"] is not None:
                continue
            rl = ref_out["layers"]
            if fn == "map":
                # `map` hands its mode="scatter" layers to the scatter overlay: they are neither binned nor returned
                rl = [ro for ro in rl if ro["fields"]["mode"] != "scatter"]
            if fn in ("scatter", "plot"):
                # one params dict per drawn item, all equal to the call's extra options
                for j, lo in enumerate(res["layers"]):
                    got = [kv for kv in lo["params"] if kv[0] not in ("c", "s", "norm")]
                    want = [kv for kv in rl[0]["params"] if kv[0] not in ("c", "s", "norm")]
                    if got != want:
                        _report(which, viol, dis, case, k, site, fn, "params", f"{tag} item {j}: params {got} vs {which} {want}", want, got)
                continue
            if len(rl) != len(res["layers"]):
                _report(which, viol, dis, case, k, site, fn, "layers", f"{tag}: {len(res['layers'])} layers shown vs {which} {len(rl)}", len(rl), len(res["layers"]))
                continue
            for j, (lo, ro) in enumerate(zip(res["layers"], rl)):
                if fn == "histogram1d":
                    obs = {"bins": lo["bins"], "weights": lo["weights"], "params": lo["params"]}
                    want = {"bins": ro["fields"]["bins"], "weights": ro["fields"]["weights"], "params": ro["params"]}
                else:
                    obs = {"mode": lo["mode"], "norm": lo["norm"], "params": lo["params"]}
                    want = {"mode": ro["fields"]["mode"], "norm": ro["norm"], "params": ro["params"]}
                    if call.get("plot") and isinstance(obs["norm"], dict) and isinstance(want["norm"], dict) and "cls" in want["norm"]:
                        # once rendered, the limits of the norm object belong to matplotlib (autoscaling fills the open
                        # ones, the colorbar widens a singular range): only its class is compared in this lane
                        obs["norm"] = {"cls": obs["norm"].get("cls")}
                        want = dict(want, norm={"cls": want["norm"]["cls"]})
                for q in obs:
                    if obs[q] != want[q]:
                        _report(which, viol, dis, case, k, site, fn, q,
                                f"{tag} layer {j}: {q} {obs[q]} vs {which} {want[q]}", want[q], obs[q])
        # ---------------- per layer: the reduction visible in the data
        if fn in ("map", "histogram2d") and m["out"]["err"] is None and s["out"]["err"] is None:
            used = [res["nx"], res["ny"], res["nz"] if (fn == "map" and call.get("dz")) else None]
            if fn == "map" and call.get("dz") and used[2] is None:
                used[2] = m["out"]["nz"]
            shown = list(range(len(m["out"]["layers"])))
            if fn == "map":
                shown = [i for i, ro in enumerate(m["out"]["layers"]) if ro["fields"]["mode"] != "scatter"]
            for jj, lo in enumerate(res["layers"]):
                if jj >= len(shown):
                    continue
                j = shown[jj]
                key = layer_key(case, call, j)
                if key is None or j >= len(m["out"]["layers"]) or j >= len(s["out"]["layers"]):
                    continue
                hits = refs.observed_ops(case, call, key, lo, used)
                stats["ops_checked"] += 1
                if len(hits) > 1:
                    stats["ops_ambiguous"] += 1
                mop = m["out"]["layers"][j]["op"]
                sop = s["out"]["layers"][j]["op"]
                if fn == "histogram2d":
                    mop = "mean" if mop == "mean" else "sum"
                    sop = "mean" if sop == "mean" else "sum"
                if mop not in hits:
                    dis.append((case, f"{tag} layer {j} ({key}): data is the {hits or 'no known'} reduction, model says {mop}"))
                if sop not in hits:
                    viol.append({"what": f"{tag} layer {j} ({key}): the data is the {'/'.join(hits) or 'unknown'} reduction; layer-level operation "
                                         f"{_layer_opt(case, call, j, 'operation')}, call-level {_call_opt(case, call, 'operation')} -> Spec {sop}",
                                 "case": case, "call_index": k, "call_site": site,
                                 "input_class": "map_layer_operation_ignored" if fn == "map" else f"{fn}_precedence_operation",
                                 "expected": {"operation": sop}, "actual": {"operation": hits}})
    return viol, dis, stats


def _layer_opt(case, call, j, f):
    i = (call.get("layers") or [None])[j] if j < len(call.get("layers") or []) else None
    if isinstance(i, int):
        return (case["layers"][i].get("opts") or {}).get(f)
    return None


def _call_opt(case, call, f):
    if call.get("opts") is None:
        return None
    return (case["optdicts"][call["opts"]] or {}).get(f)


def _report(which, viol, dis, case, k, site, fn, what, text, want, got):
    if which == "model":
        dis.append((case, text))
    else:
        viol.append({"what": text, "case": case, "call_index": k, "call_site": site,
                     "input_class": f"{fn}_precedence_{what}", "expected": want, "actual": got})


# --------------------------------------------------------------------------------------------
# parse_layer / Layer.update called directly
# --------------------------------------------------------------------------------------------
def run_parse(osy, world, case):
    from osyris.plot.parser import parse_layer

    L = world.dg.layer(case["layer"].get("key", "density"), **impl.opts_kwargs(world, case["layer"]))
    call = impl.opts_kwargs(world, case["call"])
    call_before = list(call.items())
    before = impl.layer_tokens(world, L)
    kw_id = id(L.kwargs)
    arrays_before = [(k, id(v)) for k, v in L.arrays.items()]
    if case["what"] == "parse_layer":
        out = parse_layer(L, **call)
        after = impl.layer_tokens(world, L)
        pure = (after == before and out is not L and out.kwargs is not L.kwargs and id(L.kwargs) == kw_id
                and [(k, id(v)) for k, v in L.arrays.items()] == arrays_before and list(call.items()) == call_before)
        got = impl.layer_tokens(world, out)
        shares = [(k, id(v)) for k, v in out.arrays.items()] == arrays_before
    else:
        L.update(**call)
        got = impl.layer_tokens(world, L)
        pure = list(call.items()) == call_before and [(k, id(v)) for k, v in L.arrays.items()] == arrays_before
        shares = True
    return {"fields": got["fields"], "kwargs": got["kwargs"], "pure": pure, "before": before, "shares_arrays": shares}


def gen_parse_cases(ctx):
    """every set/unset pattern of the seven option fields at both levels (4^7), each with a random
    pattern for three extra keys; plus kwargs-only patterns exhaustively (4^3 x orders)"""
    r = ctx.rng
    cases = []
    keys = ["cmap", "alpha", "zorder"]
    lay_tok = {"mode": "image", "operation": "mean", "norm": "log", "vmin": "1/2", "vmax": "8", "bins": "7", "weights": "mass"}
    call_tok = {"mode": "contour", "operation": "sum", "norm": "linear", "vmin": "1/4", "vmax": "16", "bins": "12", "weights": "density"}
    n = 4 ** 7
    idx = range(n) if ctx.tier == "thorough" else sorted(set(r.sample(range(n), 3000)) | {0, n - 1} | {4 ** k for k in range(7)}
                                                          | {2 * 4 ** k for k in range(7)} | {3 * 4 ** k for k in range(7)})
    for code in idx:
        lay, call = {}, {}
        c = code
        for f in impl.FIELDS:
            lv = c % 4
            c //= 4
            if lv in (1, 3):
                lay[f] = lay_tok[f]
            if lv in (2, 3):
                call[f] = call_tok[f]
        lk, ck = [], []
        order = keys[:]
        r.shuffle(order)
        for kk in order:
            lv = r.randrange(4)
            if lv in (1, 3):
                lk.append([kk, {"cmap": "magma", "alpha": "1/2", "zorder": "3"}[kk]])
            if lv in (2, 3):
                ck.append([kk, {"cmap": "viridis", "alpha": "1/4", "zorder": "5"}[kk]])
        r.shuffle(ck)
        lay["kwargs"], call["kwargs"] = lk, ck
        for what in ("parse_layer", "update"):
            if what == "update" and ctx.tier != "thorough" and code % 3:
                continue
            cases.append({"kind": "parse", "what": what, "layer": lay, "call": call, "code": code})
    for code in range(4 ** 3):
        for rev in (False, True):
            lk, ck = [], []
            c = code
            for kk in ("cmap", "label", "hatch"):
                lv = c % 4
                c //= 4
                if lv in (1, 3):
                    lk.append([kk, "L" + kk])
                if lv in (2, 3):
                    ck.append([kk, "C" + kk])
            if rev:
                ck.reverse()
            cases.append({"kind": "parse", "what": "parse_layer", "layer": {"kwargs": lk, "vmin": "0"}, "call": {"kwargs": ck, "vmin": "5"},
                          "code": -code - 1})
    # falsy values set on the layer must still win (`is None`, not truthiness)
    cases.append({"kind": "parse", "what": "parse_layer", "layer": {"vmin": "0", "vmax": "0", "kwargs": [["alpha", "0"]]},
                  "call": {"vmin": "5", "vmax": "9", "kwargs": [["alpha", "1/2"]]}, "code": -1000})
    cases.append({"kind": "parse", "what": "update", "layer": {"vmin": "0", "bins": "0", "kwargs": []},
                  "call": {"vmin": "5", "bins": "9", "kwargs": [["cbar", "False"]]}, "code": -1001})
    return cases


# --------------------------------------------------------------------------------------------
# sequence generator
# --------------------------------------------------------------------------------------------
def _level_opts(r, fields, kwcat, nkw):
    """-> (layer opts, call opts) with every option drawn at one of the four levels"""
    lay, call = {}, {}
    levels = {}
    for f in fields:
        lv = r.choice(LEVELS)
        levels[f] = lv
        vals = FIELD_VALUES[f] if f != "operation" else None
        if lv in ("layer", "both"):
            lay[f] = r.choice(vals) if vals else None
        if lv in ("call", "both"):
            pool = [v for v in vals if v != lay.get(f)] if vals else None
            call[f] = r.choice(pool) if vals else None
    lk, ck = [], []
    for kk in r.sample(sorted(kwcat), min(nkw, len(kwcat))):
        lv = r.choice(LEVELS)
        levels["kw:" + kk] = lv
        vals = kwcat[kk]
        a = r.choice(vals)
        if lv in ("layer", "both"):
            lk.append([kk, a])
        if lv in ("call", "both"):
            ck.append([kk, r.choice([v for v in vals if v != a] or vals)])
    r.shuffle(ck)
    lay["kwargs"], call["kwargs"] = lk, ck
    return lay, call, levels


def gen_sequence(r, tier, plot_lane=False, malformed=False):
    nl = r.choice([1, 1, 2, 2, 3])
    keys = [r.choice(["density", "mass", "temperature"]) for _ in range(nl)]
    case = {"kind": "seq", "layers": [], "optdicts": [], "normobjs": [], "edges": [["0", "1", "2", "4", "8"]],
            "win": {"a": "1", "b": "1/2", "c": "1/4", "d": "3/4"}, "origin": ["3/8", "3/8", "3/8"],
            "limits": {"xmin": "1/2", "xmax": "4", "ymin": "2", "ymax": {"v": "4", "u": "g"}}, "calls": []}
    levels = {}
    # image family: options of map / histogram2d
    img_call = None
    h1ok = []
    for i, key in enumerate(keys):
        # Layers that histogram1d calls may use carry only extra options matplotlib's hist accepts as well
        h1ok.append(r.random() < 0.5 and not plot_lane)
        lay, call, lv = _level_opts(r, ["mode", "norm", "vmin", "vmax", "operation"], COMMON_KW if h1ok[-1] else IMG_KW, r.choice([1, 2, 3]))
        if h1ok[-1] and img_call is not None:
            pass
        for side in (lay, call):
            if "operation" in side:
                side["operation"] = r.choice(MAP_OPS)
        if "operation" in lay and "operation" in call and lay["operation"] == call["operation"]:
            call["operation"] = r.choice([o for o in MAP_OPS if o != lay["operation"]])
        if not plot_lane and r.random() < 0.12:
            case["normobjs"].append({"cls": r.choice(["Normalize", "LogNorm"]), "vmin": r.choice([None, "1"]), "vmax": r.choice([None, "8"])})
            (lay if r.random() < 0.5 else call)["norm"] = f"obj:{len(case['normobjs']) - 1}"
        if malformed and r.random() < 0.5:
            (lay if r.random() < 0.5 else call)["norm"] = "cubic"
        if plot_lane:
            for side in (lay, call):
                if side.get("norm") in ("symlog",):
                    side["norm"] = "log"
                if side.get("mode") == "contour":
                    side["mode"] = "contourf"
        # histogram1d options live on the same Layer objects
        h1lay, h1call, lv2 = _level_opts(r, ["bins", "weights"], H1_KW, 0)
        if r.random() < 0.15 and "bins" in h1lay:
            h1lay["bins"] = "edges:0"
        lay.update({k: v for k, v in h1lay.items() if k != "kwargs"})
        case["layers"].append({"key": key, "opts": lay})
        levels[f"layer{i}"] = {**lv, **lv2}
        if img_call is None:
            img_call = call
            h1_call = {k: v for k, v in h1call.items() if k != "kwargs"}
    # option dicts shared between calls
    case["optdicts"].append(img_call)                                        # 0: map / histogram2d
    h1kw = [[k, r.choice(v)] for k, v in H1_KW.items() if r.random() < 0.5]
    case["optdicts"].append({**h1_call, "kwargs": h1kw})                     # 1: histogram1d
    sc_norm = {"norm": r.choice(["log", "linear"]), "vmin": "1/2"} if r.random() < 0.4 else {}
    if r.random() < 0.3:
        # a ready-made norm object with both limits set (nothing for matplotlib to autoscale) next to call-level limits
        case["normobjs"].append({"cls": r.choice(["Normalize", "LogNorm"]), "vmin": "1", "vmax": "8"})
        sc_norm = {"norm": f"obj:{len(case['normobjs']) - 1}", "vmin": "2", "vmax": "4"}
    case["optdicts"].append({"kwargs": [[k, r.choice(v)] for k, v in SC_KW.items() if r.random() < 0.6], **sc_norm})   # 2: scatter
    case["optdicts"].append({"kwargs": [[k, r.choice(v)] for k, v in PL_KW.items() if r.random() < 0.6]})         # 3: plot
    case["res"] = r.choice([[["x", 8]], [["x", 8]], [["x", 4], ["y", 8]], [["y", 16]], [], [["x", 4], ["y", 4], ["z", 2]], None])
    ncalls = r.choice([2, 2, 3, 3, 4])
    fns = ["map", "map", "map", "histogram2d", "histogram2d", "histogram1d", "scatter", "plot"]
    for k in range(ncalls):
        fn = r.choice(fns) if k else r.choice(["map", "map", "histogram2d", "histogram1d"])
        if k and r.random() < 0.2:
            case["calls"].append(json.loads(json.dumps(case["calls"][-1])))      # the same call again
            continue
        ls = sorted(r.sample(range(nl), r.randint(1, nl)))
        if fn == "map":
            thick = r.random() < 0.65
            res = r.choice(["shared", "shared", "shared", 4, 8, None]) if case["res"] is not None else r.choice([4, 8, 16, None])
            if thick and (res is None or (res == "shared" and not case["res"])):
                res = 8                  # 256 x 256 pixels times a derived depth of 256 samples is only slow
            call = {"fn": "map", "layers": ls, "opts": r.choice([0, 0, 0, None]), "res": res, "dx": r.choice(["a", "a", "b", "d"]),
                    "dz": r.choice(["a", "b", "c", "d"]) if thick else None, "origin": True,
                    "direction": r.choice(["z", "z", "x", "y"]), "plot": plot_lane}
            if r.random() < 0.3:
                call["dy"] = r.choice(["a", "b"])
            if not thick and r.random() < 0.2:
                call["dx"] = None
            if malformed and r.random() < 0.3:
                call["layers"] = ls + ["raw:density"]
            if not plot_lane and len(ls) >= 1 and r.random() < 0.25:
                # a mode="scatter" layer of its own (used by this call only) before or between the image layers: it goes to the
                # scatter overlay, the image layers after it keep their own options
                case["layers"].append({"key": r.choice(["density", "mass"]), "opts": {"mode": "scatter", "kwargs": []}})
                h1ok.append(False)
                pos = r.randrange(len(call["layers"]))
                call["layers"] = call["layers"][:pos] + [len(case["layers"]) - 1] + call["layers"][pos:]
        elif fn == "histogram2d":
            res = r.choice(["shared", 4, 8, 5]) if case["res"] is not None else r.choice([4, 8, 5])
            call = {"fn": "histogram2d", "x": r.choice(["density", "mass", "position.x"]), "y": r.choice(["mass", "temperature", "position.y"]),
                    "layers": r.choice([ls, ls, ls + ["raw:temperature"], []]), "opts": r.choice([0, 0, None]), "res": res,
                    "plot": plot_lane, "limits": r.choice([[], [], ["xmin"], ["xmin", "xmax"]])}
            if call["x"] != "density":
                call["limits"] = []
            if call["y"] == "mass" and r.random() < 0.4:
                call["limits"] = call["limits"] + ["ymax"]        # a Quantity limit
            if r.random() < 0.2:
                call["logx"] = True
                call["limits"] = []
        elif fn == "histogram1d":
            ok = [i for i in ls if h1ok[i]]
            call = {"fn": "histogram1d", "layers": r.choice([ok, ok, ok + ["raw:mass"]]) or ["raw:mass"], "opts": r.choice([1, 1, None])}
            if r.random() < 0.45:
                call["logx"] = True
        elif fn == "scatter":
            xy = r.choice([("density", "mass"), ("position.x", "position.y"), ("mass", "temperature")])
            call = {"fn": "scatter", "x": xy[0], "y": xy[1], "opts": r.choice([2, 2, None]),
                    "color": r.choice([None, "r", "arr:mass", "arr:temperature"]),
                    "size": r.choice([None, "3", r.choice(["arr:dx", "arr:radius"]) if xy[0].startswith("position") else "5"])}
            if str(call["size"]).startswith("arr:") and any(k == "marker" for k, _ in case["optdicts"][2]["kwargs"]):
                call["size"] = "3"      # sizes with a unit are drawn as a PatchCollection, which takes no marker
        else:
            xy = r.choice([("position.x", ["position.y"]), ("position.x", ["position.y", "position.z"]), ("density", ["mass"]), ("mass", [])])
            call = {"fn": "plot", "x": xy[0], "ys": xy[1], "opts": r.choice([3, 3, None])}
        case["calls"].append(call)
    # the level at which every option of every Layer actually ends up (for the distribution in the evidence)
    levels = {}
    for i, l in enumerate(case["layers"]):
        lv = {}
        lo = l["opts"]
        for f in ("mode", "norm", "vmin", "vmax", "operation", "bins", "weights"):
            co = case["optdicts"][1 if f in ("bins", "weights") else 0]
            lv[f] = LEVELS[(1 if lo.get(f) is not None else 0) + (2 if co.get(f) is not None else 0)]
        lk = {k for k, _ in lo.get("kwargs") or []}
        ck = {k for k, _ in case["optdicts"][0].get("kwargs") or []}
        for k in sorted(lk | ck):
            lv["kw:" + k] = LEVELS[(1 if k in lk else 0) + (2 if k in ck else 0)]
        levels[f"layer{i}"] = lv
    case["levels"] = levels
    return case


def corpus():
    """witnesses of DESIGN 6 / theorem C19_map_mutates_resolution_witness"""
    base = {"kind": "seq", "layers": [{"key": "density", "opts": {}}], "optdicts": [{}], "normobjs": [], "edges": [],
            "win": {"a": "1", "b": "1/2"}, "origin": ["3/8", "3/8", "3/8"], "limits": {}, "res": [["x", 8]]}
    m = {"fn": "map", "layers": [0], "opts": None, "res": "shared", "dx": "a", "origin": True, "direction": "z", "plot": False}
    c1 = dict(base, calls=[dict(m, dz=None), dict(m, dz=None)], tags=["witness", "thin_map_resolution_dict"])
    c2 = dict(base, calls=[dict(m, dz="b"), dict(m, dz="a")], tags=["witness", "thick_map_stale_z"])
    c3 = dict(base, layers=[{"key": "density", "opts": {"operation": "mean"}}, {"key": "mass", "opts": {}}], res=None,
              calls=[dict(m, layers=[0, 1], res=4, dz="b"), dict(m, layers=[0, 1], res=4, dz="b")], tags=["witness", "layer_operation"])
    c4 = dict(base, layers=[{"key": "density", "opts": {"operation": "mean", "norm": "log", "vmin": "1/2", "kwargs": [["cmap", "magma"]]}}],
              optdicts=[{"operation": "sum", "norm": "linear", "vmax": "8", "kwargs": [["cmap", "jet"], ["alpha", "1/2"]]}], res=[["x", 4], ["y", 4]],
              calls=[{"fn": "histogram2d", "x": "density", "y": "mass", "layers": [0], "opts": 0, "res": "shared", "plot": False},
                     dict(m, opts=0, dz="b"), {"fn": "histogram2d", "x": "density", "y": "mass", "layers": [0], "opts": 0, "res": "shared", "plot": False}],
              tags=["witness", "hist2d_after_map"])
    # histogram2d refuses {'x': 8} on its own (KeyError 'y'); after a map call that filled the dict it runs
    h = {"fn": "histogram2d", "x": "density", "y": "mass", "layers": [0], "opts": None, "res": "shared", "plot": False}
    c5 = dict(base, calls=[dict(h), dict(m, dz=None), dict(h)], tags=["witness", "hist2d_sees_filled_dict"])
    # marker sizes with a unit, some of them NaN / inf: drawn as patches; the caller's size Array reaches the renderer as
    # it is (norm and to() of an Array in the unit of x return the object itself)
    sc = {"fn": "scatter", "x": "position.x", "y": "position.y", "opts": None, "color": None, "size": "arr:radius"}
    c6 = dict(base, calls=[dict(sc), dict(sc, color="arr:mass"), dict(sc, size="arr:dx")], tags=["witness", "scatter_nan_radii"])
    return [json.loads(json.dumps(c)) for c in (c1, c2, c3, c4, c5, c6)]


# --------------------------------------------------------------------------------------------
# shrinking
# --------------------------------------------------------------------------------------------
def evaluate(osy, case, policies, probe, refs):
    steps = run_sequence(osy, case, probe)
    model, spec = run_opts([lean_seq(case, "model", policies), lean_seq(case, "spec", policies)])
    if "err" in model or "err" in spec:
        raise RuntimeError("driver rejected a case: " + json.dumps(case)[:400])
    return check_sequence(osy, case, model, spec, steps, refs)


def shrink(osy, case, cls, policies, probe, refs):
    """drop calls, layers from calls and options while a violation of the same class remains"""
    def fails(c):
        try:
            v, _, _ = evaluate(osy, c, policies, probe, refs)
        except Exception:  # noqa: BLE001
            return False
        return any(x["input_class"] == cls for x in v)

    cur = json.loads(json.dumps(case))
    changed = True
    rounds = 0
    while changed and rounds < 40:
        changed = False
        for i in range(len(cur["calls"]) - 1, -1, -1):
            rounds += 1
            if len(cur["calls"]) > 1:
                cand = json.loads(json.dumps(cur))
                del cand["calls"][i]
                if fails(cand):
                    cur, changed = cand, True
        for i, c in enumerate(cur["calls"]):
            if len(c.get("layers") or []) > 1:
                for j in range(len(c["layers"]) - 1, -1, -1):
                    cand = json.loads(json.dumps(cur))
                    del cand["calls"][i]["layers"][j]
                    rounds += 1
                    if cand["calls"][i]["layers"] and fails(cand):
                        cur, changed = cand, True
                        break
        for group in ("layers", "optdicts"):
            for i, o in enumerate(cur[group]):
                opts = o.get("opts") if group == "layers" else o
                for f in list((opts or {}).keys()):
                    cand = json.loads(json.dumps(cur))
                    tgt = cand[group][i]["opts"] if group == "layers" else cand[group][i]
                    if f == "kwargs":
                        if not tgt["kwargs"]:
                            continue
                        tgt["kwargs"] = []
                    else:
                        del tgt[f]
                    rounds += 1
                    if fails(cand):
                        cur, changed = cand, True
    cur.pop("levels", None)
    return cur


# --------------------------------------------------------------------------------------------
def single_thread():
    """the map kernel lets the last writer win where a sample point lies on a cell face (C03's slack); one numba
    thread makes that deterministic — the worlds below keep sample points off the faces anyway"""
    try:
        import numba

        numba.set_num_threads(1)
    except Exception:  # noqa: BLE001
        pass


def run(ctx):
    osy = ctx.osyris
    out = Outcome()
    single_thread()
    thorough = ctx.tier == "thorough"
    out.extra["opts_driver"] = driver_kind()
    policies = c19_extract.map_policies()
    out.extra["map_source"] = policies
    tables = run_opts([{"engine": "opts", "op": "tables"}])[0]
    out.extra["tables_generated"] = tables.get("generated")
    dist = {}
    vcount = {}
    seen = {}

    def add_violation(v):
        sig = (v["call_site"], v["input_class"])
        vcount["|".join(sig)] = vcount.get("|".join(sig), 0) + 1
        if seen.get(sig, 0) < 2:
            seen[sig] = seen.get(sig, 0) + 1
            out.violations.append(v)
            return True
        return False

    # ---------------- lane 1: parse_layer / Layer.update over the option lattice
    pcases = gen_parse_cases(ctx)
    world = impl.build_world(osy, {"layers": [], "optdicts": [], "edges": [["0", "1", "2"]]})
    lines = []
    for c in pcases:
        lines.append(lean_parse(c, "model"))
        lines.append(lean_parse(c, "spec"))
    answers = run_opts(lines)
    for i, c in enumerate(pcases):
        got = run_parse(osy, world, c)
        mod, spe = answers[2 * i], answers[2 * i + 1]
        if "err" in mod or "err" in spe:
            raise RuntimeError("driver rejected a case: " + json.dumps(c)[:300])
        out.evaluations += 1
        out.compared += 1
        site = impl.SITES[c["what"]]
        key = f"direct:{c['what']}"
        dist[key] = dist.get(key, 0) + 1
        nset = sum(1 for f in impl.FIELDS if c["layer"].get(f) is not None) + sum(1 for f in impl.FIELDS if c["call"].get(f) is not None)
        if nset or c["layer"].get("kwargs") or c["call"].get("kwargs"):
            out.nontrivial.add(case_hash({k: c[k] for k in ("what", "layer", "call")}))
        if len(out.samples) < 2 and nset >= 5:
            out.samples.append({"case": c, "impl": {k: got[k] for k in ("fields", "kwargs", "pure")}, "model": mod, "spec": spe})
        shown = {"fields": got["fields"], "kwargs": got["kwargs"]}
        if shown != {"fields": mod["fields"], "kwargs": mod["kwargs"]}:
            out.disagreements.append((c, f"{c['what']}: impl {shown} vs model {mod}"))
        if shown != {"fields": spe["fields"], "kwargs": spe["kwargs"]}:
            bad = [f for f in impl.FIELDS if got["fields"][f] != spe["fields"][f]] or ["kwargs"]
            add_violation({"what": f"{c['what']}(layer={c['layer']}, call={c['call']}): {bad[0]} = "
                                   f"{got['fields'].get(bad[0], got['kwargs'])}, Spec {spe['fields'].get(bad[0], spe['kwargs'])}",
                           "case": c, "call_site": site, "input_class": f"{c['what']}_precedence_{bad[0]}",
                           "expected": spe, "actual": shown})
        if not got["pure"]:
            add_violation({"what": f"{c['what']} changed its argument (Layer before: {got['before']})", "case": c, "call_site": site,
                           "input_class": f"{c['what']}_modifies_argument", "expected": "argument unchanged", "actual": got["before"]})
            out.disagreements.append((c, f"{c['what']}: the argument Layer / option dict changed, the model (layer.copy() first) leaves it alone"))

    # ---------------- lane 2: sequences of plotting calls sharing argument objects
    r = ctx.rng
    nseq = 60 if not thorough else 600
    cases = corpus()
    for _ in range(nseq):
        cases.append(gen_sequence(r, ctx.tier))
    for _ in range(8 if not thorough else 60):
        cases.append(gen_sequence(r, ctx.tier, malformed=True))
    if thorough:
        for _ in range(160):
            cases.append(gen_sequence(r, ctx.tier, plot_lane=True))
    probe = impl.Probe()
    refs = Refs(osy)
    stats_total = {}
    lvl_hist = {}
    with probe.installed():
        all_steps = [run_sequence(osy, c, probe) for c in cases]
        lines = []
        for c in cases:
            lines.append(lean_seq(c, "model", policies))
            lines.append(lean_seq(c, "spec", policies))
        answers = run_opts(lines)
        for i, (c, steps) in enumerate(zip(cases, all_steps)):
            model, spec = answers[2 * i], answers[2 * i + 1]
            if "err" in model or "err" in spec:
                raise RuntimeError("driver rejected a case: " + json.dumps(c)[:400])
            viol, dis, stats = check_sequence(osy, c, model, spec, steps, refs)
            for k, v in stats.items():
                stats_total[k] = stats_total.get(k, 0) + v
            out.evaluations += len(c["calls"])
            out.compared += len(c["calls"])
            out.nontrivial.add(case_hash({k: v for k, v in c.items() if k not in ("tags", "levels")}))
            for call, st in zip(c["calls"], steps):
                key = f"seq:{call['fn']}" + (":plot" if call.get("plot") else "") + (":thick" if call.get("dz") else "") + \
                      (":shared_res" if call.get("res") == "shared" else "") + (":" + st["result"]["err"] if st["result"]["err"] else "")
                dist[key] = dist.get(key, 0) + 1
            for lv in (c.get("levels") or {}).values():
                for f, s in lv.items():
                    lvl_hist[f"{f}:{s}"] = lvl_hist.get(f"{f}:{s}", 0) + 1
            if len(out.samples) < 5 and len(c["calls"]) >= 2:
                out.samples.append({"case": {k: v for k, v in c.items() if k != "levels"},
                                    "impl": [impl.summarise(s["result"]) for s in steps][:2],
                                    "model": [s["out"] for s in model["steps"]][:2], "spec": [s["out"] for s in spec["steps"]][:2]})
            for v in viol:
                if add_violation(v):
                    try:
                        small = shrink(osy, c, v["input_class"], policies, probe, refs)
                        vs, _, _ = evaluate(osy, small, policies, probe, refs)
                        same = [x for x in vs if x["input_class"] == v["input_class"]]
                        if same:
                            out.violations[-1] = same[0]
                    except Exception as e:  # noqa: BLE001
                        ctx.notes.append(f"shrink failed: {e}")
            for d in dis[:3]:
                out.disagreements.append(d)
    out.extra["probe_points"] = probe.available
    out.extra["violation_counts"] = vcount
    out.extra["sequence_stats"] = stats_total
    out.extra["option_levels"] = dict(sorted(lvl_hist.items()))
    out.distribution = dict(sorted(dist.items()))
    out.rule = ("lane 1: parse_layer / Layer.update called directly on Layers built with Datagroup.layer: the 4^7 set/unset patterns of "
                "(mode, operation, norm, vmin, vmax, bins, weights) at layer/call level (all in thorough, 3000 sampled + the single-option ones in quick), "
                "each with three extra keys at random levels and orders, the 4^3 extra-key patterns in both orders, falsy values; result vs model and "
                "Spec, argument untouched, arrays shared. lane 2: sequences of 2-4 calls of map (thin/thick, dict/int/default resolution, windows, "
                "directions), histogram2d, histogram1d, scatter, plot sharing Layers, option dicts, one resolution dict, window Quantities, origin, "
                "limits, the Datagroup; every option of the image family and of histogram1d drawn at neither/layer/call/both; repeated calls; bare Arrays "
                "and no-layer histogram2d; unknown norm keywords and non-Layer arguments (error paths); norm objects (plot=False); plot=True lane in thorough. "
                "Per call: deep snapshots before/after, result vs the same call on a fresh world, resolution used, Plot.layers mode/norm/params, "
                "Axes.hist arguments, and the reduction recognised from the data. non-trivial = distinct case hash with at least one option set")
    return out


def replay(ctx, path):
    payload = json.load(open(path))
    c = payload["case"]
    osy = ctx.osyris
    single_thread()
    if c.get("kind") == "parse":
        world = impl.build_world(osy, {"layers": [], "optdicts": [], "edges": [["0", "1", "2"]]})
        got = run_parse(osy, world, c)
        spe = run_opts([lean_parse(c, "spec")])[0]
        print("impl:", {k: got[k] for k in ("fields", "kwargs", "pure")})
        print("spec:", spe)
        if {"fields": got["fields"], "kwargs": got["kwargs"]} != {"fields": spe["fields"], "kwargs": spe["kwargs"]} or not got["pure"]:
            print(f"VIOLATION property=C19 replay={path}")
            return 1
        print("replay: implementation satisfies the Spec on this input now")
        return 0
    policies = c19_extract.map_policies()
    probe = impl.Probe()
    refs = Refs(osy)
    with probe.installed():
        viol, dis, _ = evaluate(osy, c, policies, probe, refs)
    for v in viol[:6]:
        print("difference:", v["what"][:300])
    for _, d in dis[:3]:
        print("impl vs model:", d[:300])
    want = payload.get("input_class")
    if any(v["input_class"] == want for v in viol) or (want is None and viol):
        print(f"VIOLATION property=C19 replay={path}")
        return 1
    if viol:
        print("replay: the recorded violation is gone, others remain:", sorted({v["input_class"] for v in viol}))
        print(f"VIOLATION property=C19 replay={path}")
        return 1
    print("replay: implementation satisfies the Spec on this input now")
    return 0
