"""C20 Datagroup and Dataset behave as dictionaries; equality is by content."""
from ..gencore import G, KEYS, replay_core, run_programs

TRUSTED = ["Python dict insertion order and `dict(*args, **kwargs)` collapsing of duplicate keys (modelled by dictSet)"]
ASSUMPTIONS = ["values stored in a Datagroup are Arrays or Vectors (what the library documents)"]


def gen_dict_program(g, length):
    r = g.rng
    prog = []
    nvar = [0]

    def fresh():
        nvar[0] += 1
        return nvar[0]

    pool = []  # member variables
    groups = []
    datasets = []
    n = r.choice([0, 1, 3, 4])
    shapes = [[n], [n], [n], [n + 1], []]

    def new_member():
        shape = r.choice(shapes)
        dt = r.choice(["f8", "f8", "i8", "f4", "i4"])
        u, _ = g.unit(r.choice(["length", "time", "dimensionless"]))
        if r.random() < 0.3:
            cs = []
            for _ in range(r.randint(1, 3)):
                v = fresh()
                prog.append({"op": "arr", "dst": v, "v": g.arr(shape, dt, u, small=True)})
                cs.append(v)
            v = fresh()
            prog.append({"op": "vec", "dst": v, "comps": cs, "name": ""})
        else:
            v = fresh()
            prog.append({"op": "arr", "dst": v, "v": g.arr(shape, dt, u, small=True, name=r.choice(["", "q"]))})
        pool.append(v)
        return v

    for _ in range(2):
        v = fresh()
        prog.append({"op": "dg_new", "dst": v})
        groups.append(v)
    v = fresh()
    prog.append({"op": "ds_new", "dst": v})
    datasets.append(v)
    for _ in range(3):
        new_member()
    for _ in range(length):
        k = r.random()
        gv = r.choice(groups)
        key = r.choice(KEYS)
        if k < 0.30:
            m = r.choice(pool) if r.random() < 0.6 else new_member()
            prog.append({"op": "dg_set", "g": gv, "key": key, "v": m})
        elif k < 0.38:
            prog.append({"op": "dg_del", "g": gv, "key": key})
        elif k < 0.45:
            d = fresh()
            prog.append({"op": "dg_pop", "dst": d, "g": gv, "key": key})
        elif k < 0.50:
            d = fresh()
            prog.append({"op": "dg_get", "dst": d, "g": gv, "key": key, "default": r.choice(pool)})
            prog.append({"op": "obs", "v": d})
        elif k < 0.58:
            items = [[r.choice(KEYS), r.choice(pool)] for _ in range(r.randint(0, 3))]
            prog.append({"op": "dg_update", "g": gv, "items": items, "kw": r.random() < 0.5})
        elif k < 0.61:
            prog.append({"op": "dg_clear", "g": gv})
        elif k < 0.66:
            d = fresh()
            prog.append({"op": "copy", "dst": d, "a": gv, "via": r.choice(["copy", "copy.copy"])})
            groups.append(d)
        elif k < 0.72:
            prog.append({"op": "dg_keys", "g": gv, "iter": r.random() < 0.5})
            prog.append({"op": "dg_len", "g": gv})
            prog.append({"op": "dg_contains", "g": gv, "key": key})
        elif k < 0.80:
            dv = r.choice(datasets)
            what = gv if r.random() < 0.85 else r.choice(pool)
            prog.append({"op": "ds_set", "d": dv, "key": r.choice(["mesh", "part", "sink"]), "v": what})
        elif k < 0.86:
            dv = r.choice(datasets)
            sub = r.random()
            gk = r.choice(["mesh", "part", "sink"])
            if sub < 0.25:
                prog.append({"op": "ds_del", "d": dv, "key": gk})
            elif sub < 0.5:
                d = fresh()
                prog.append({"op": "ds_pop", "dst": d, "d": dv, "key": gk})
            elif sub < 0.6:
                prog.append({"op": "ds_clear", "d": dv})
            elif sub < 0.8:
                items = [[r.choice(["mesh", "part", "sink"]), r.choice(groups + pool[:1])] for _ in range(r.randint(0, 2))]
                prog.append({"op": "ds_update", "d": dv, "items": items, "kw": r.random() < 0.5})
            else:
                prog.append({"op": "ds_meta_set", "d": dv, "key": r.choice(["time", "ndim"]), "val": str(r.randint(0, 9))})
            # get / [] on the dataset: a stored group comes back as the stored object (also when it is empty), a missing key
            # gives the default / KeyError
            d = fresh()
            if r.random() < 0.7:
                prog.append({"op": "ds_get", "dst": d, "d": dv, "key": gk, "default": r.choice(groups)})
            else:
                prog.append({"op": "ds_getkey", "dst": d, "d": dv, "key": gk})
            for g2 in groups:
                prog.append({"op": "same", "a": d, "b": g2})
        elif k < 0.88:
            dv = r.choice(datasets)
            prog.append({"op": "ds_keys", "d": dv, "iter": r.random() < 0.5})
            prog.append({"op": "ds_len", "d": dv})
            prog.append({"op": "ds_contains", "d": dv, "key": "mesh"})
        elif k < 0.91:
            dv = r.choice(datasets)
            d = fresh()
            prog.append({"op": "copy", "dst": d, "a": dv})
            datasets.append(d)
        elif k < 0.95:
            prog.append({"op": "dg_eq", "a": r.choice(groups), "b": r.choice(groups)})
        else:
            prog.append({"op": "obs", "v": gv})
    for gv in groups:
        prog.append({"op": "obs", "v": gv})
    for dv in datasets:
        prog.append({"op": "obs", "v": dv})
    for m in pool[:4]:
        prog.append({"op": "obs", "v": m})
    return prog


def gen_eq_program(g):
    """Pairs of groups: identical, one element different, all different, different keys,
    same quantities in different units, 0-d members, vectors."""
    r = g.rng
    prog = []
    nv = [0]

    def fresh():
        nv[0] += 1
        return nv[0]

    kind = r.choice(["identical", "one_diff", "all_diff", "diff_keys", "same_qty_other_unit",
                     "other_unit_diff", "incompatible", "reordered_keys", "zero_d", "empty_rows"])
    n = 0 if kind == "empty_rows" else r.choice([1, 2, 5])
    shape = [] if kind == "zero_d" else [n]
    keys = r.sample(KEYS, r.randint(1, 3))
    g1, g2 = fresh(), fresh()
    prog.append({"op": "dg_new", "dst": g1})
    prog.append({"op": "dg_new", "dst": g2})
    fam = r.choice(["length", "time", "mass"])
    units = g.families()[fam]
    second = []
    for ki, key in enumerate(keys):
        u1 = r.choice(units)
        is_vec = r.random() < 0.35
        ncomp = r.randint(1, 3) if is_vec else 1
        comps1, comps2 = [], []
        for c in range(ncomp):
            a = g.arr(shape, "f8", u1, small=True)
            b = dict(a)
            if kind == "one_diff" and ki == len(keys) - 1 and c == ncomp - 1 and a["data"]:
                d = list(a["data"])
                j = r.randrange(len(d))
                d[j] = str(int(float(eval_frac(d[j]))) + 7)
                b = dict(a, data=d)
            elif kind == "all_diff":
                b = dict(a, data=[str(int(float(eval_frac(x))) * 2 + 1001) for x in a["data"]])
            elif kind in ("same_qty_other_unit", "other_unit_diff"):
                u2 = r.choice(units)
                f1 = eval_frac(g.ujson(u1)["f"])
                f2 = eval_frac(g.ujson(u2)["f"])
                vals = [eval_frac(x) * f1 / f2 for x in a["data"]]
                if kind == "other_unit_diff" and vals and ki == 0 and c == 0:
                    vals[0] = vals[0] + 3
                b = g.arr(shape, "f8", u2, values=vals)
            elif kind == "incompatible" and ki == len(keys) - 1:
                other = "time" if fam != "time" else "mass"
                b = g.arr(shape, "f8", r.choice(g.families()[other]), values=[eval_frac(x) for x in a["data"]])
            v1, v2 = fresh(), fresh()
            prog.append({"op": "arr", "dst": v1, "v": a})
            prog.append({"op": "arr", "dst": v2, "v": b})
            comps1.append(v1)
            comps2.append(v2)
        if is_vec:
            w1, w2 = fresh(), fresh()
            prog.append({"op": "vec", "dst": w1, "comps": comps1})
            prog.append({"op": "vec", "dst": w2, "comps": comps2})
            m1, m2 = w1, w2
        else:
            m1, m2 = comps1[0], comps2[0]
        prog.append({"op": "dg_set", "g": g1, "key": key, "v": m1})
        k2 = key
        if kind == "diff_keys" and ki == 0:
            k2 = [k for k in KEYS if k not in keys][0]
        second.append((k2, m2))
    if kind == "reordered_keys":
        second = list(reversed(second))
    for k2, m2 in second:
        prog.append({"op": "dg_set", "g": g2, "key": k2, "v": m2})
    prog.append({"op": "dg_eq", "a": g1, "b": g2})
    prog.append({"op": "dg_eq", "a": g2, "b": g1})
    prog.append({"op": "dg_eq", "a": g1, "b": g1})
    return prog, kind


def eval_frac(s):
    from fractions import Fraction

    return Fraction(s)


def nontrivial(case, impl_out):
    ops = {o["op"] for o in case["prog"]}
    return ("dg_eq" in ops) or (len(ops & {"dg_set", "dg_update", "ds_set"}) > 0 and len(ops & {"dg_del", "dg_pop", "dg_clear", "copy", "ds_pop", "ds_del"}) > 0)


def classify(prog, actual, expected, diff):
    return ("Datagroup.__eq__" if any(o["op"] == "dg_eq" for o in prog) else "Datagroup/Dataset dict ops", "any")


def run(ctx):
    g = G(ctx.rng, ctx.osyris, "exact")
    nseq = 250 if ctx.tier == "quick" else 4000
    neq = 150 if ctx.tier == "quick" else 2500
    cases = []
    dist = {}
    for _ in range(nseq):
        cases.append({"prog": gen_dict_program(g, ctx.rng.randint(3, 30)), "lane": "exact", "tags": ["dict"]})
    for _ in range(neq):
        prog, kind = gen_eq_program(g)
        dist[kind] = dist.get(kind, 0) + 1
        cases.append({"prog": prog, "lane": "exact", "tags": ["eq", kind]})
    out = run_programs(ctx, cases, nontrivial, known_classifier=classify)
    ops = {}
    for c in cases:
        for o in c["prog"]:
            ops[o["op"]] = ops.get(o["op"], 0) + 1
    out.distribution = {"eq_pair_kinds": dist, "op_counts": ops}
    out.rule = ("random dictionary-operation programs over keys a..e on two Datagroups and a Dataset sharing a pool of "
                "Arrays/Vectors (equal and unequal shapes), plus pairs of groups (identical / one element different / all "
                "different / different keys / same quantities in other units / incompatible units / 0-d / empty). "
                "non-trivial = contains an equality test, or both an insertion and a removal/copy; distinct by program hash")
    return out


def replay(ctx, path):
    return replay_core(ctx, path)
