"""C06 Datagroup members stay row-aligned under insertion, slicing and sorting."""
from fractions import Fraction

from .. import coremachine
from ..gencore import G, KEYS, replay_core, run_programs

TRUSTED = ["numpy basic/advanced indexing and argsort on distinct keys (modelled by Index.rows / takeRows / mergeSort)"]
ASSUMPTIONS = ["sort keys have distinct values (numpy's default argsort is not stable; ties are unspecified)"]

WITNESS_SCALAR_GATE = "scalar_first_member"


def gen_program(g, length):
    r = g.rng
    prog = []
    nv = [0]

    def fresh():
        nv[0] += 1
        return nv[0]

    n = r.choice([0, 1, 2, 5, 8, 12])
    groups = []
    pool = []
    nmem = [0]

    def new_member(rows=None, shape_tail=None):
        rows = n if rows is None else rows
        tail = shape_tail if shape_tail is not None else r.choice([[], [], [], [2]])
        shape = [rows] + tail
        per = 1
        for d in tail:
            per *= d
        dt = r.choice(["f8", "f8", "i8", "f4", "i4"])
        u, _ = g.unit(r.choice(["length", "time", "mass", "dimensionless"]))
        nmem[0] += 1
        base = 1000 * nmem[0]

        def vals(off):
            return [Fraction(base + off + i // per * 1 + (i % per) * 500000) for i in range(rows * per)]

        if r.random() < 0.35:
            cs = []
            for c in range(r.randint(1, 3)):
                v = fresh()
                prog.append({"op": "arr", "dst": v, "v": g.arr(shape, dt, u, values=vals(100 * (c + 1)))})
                cs.append(v)
            v = fresh()
            prog.append({"op": "vec", "dst": v, "comps": cs, "name": ""})
        else:
            v = fresh()
            prog.append({"op": "arr", "dst": v, "v": g.arr(shape, dt, u, values=vals(0))})
        pool.append(v)
        return v

    gv = fresh()
    prog.append({"op": "dg_new", "dst": gv})
    groups.append((gv, n))
    distinct = {gv}
    for key in r.sample(KEYS, r.randint(1, 4)):
        prog.append({"op": "dg_set", "g": gv, "key": key, "v": new_member()})
    # a sort key with distinct values
    sk = fresh()
    perm = list(range(n))
    r.shuffle(perm)
    prog.append({"op": "arr", "dst": sk, "v": g.arr([n], r.choice(["f8", "i8"]), "vt1", values=[Fraction(p * 3 - 7) for p in perm])})
    prog.append({"op": "dg_set", "g": gv, "key": "s", "v": sk})
    for _ in range(length):
        gcur, rows = r.choice(groups)
        k = r.random()
        if k < 0.30:
            d = fresh()
            op = {"op": "dg_index", "dst": d, "g": gcur}
            if r.random() < 0.2 and rows > 0:
                # Array-typed index (bool mask or integer Array)
                iv = fresh()
                if r.random() < 0.5:
                    prog.append({"op": "arr", "dst": iv, "v": g.arr([rows], "b", "", values=[Fraction(r.randint(0, 1)) for _ in range(rows)])})
                else:
                    m = r.randint(0, rows + 1)
                    dt = r.choice(["i8", "i4", "f8"])
                    prog.append({"op": "arr", "dst": iv, "v": g.arr([m], dt, "", values=[Fraction(r.randint(-rows, rows - 1)) for _ in range(m)])})
                op["ixvar"] = iv
            else:
                op["ix"] = g.index(rows)
            prog.append(op)
            prog.append({"op": "obs", "v": d})
            if "ix" in op and op["ix"]["k"] in ("int", "slice", "mask") and gcur in distinct:
                distinct.add(d)
            groups.append((d, rows))  # row count of d is unknown to the generator; used only as a hint
        elif k < 0.42:
            if r.random() < 0.6 and gcur in distinct:
                prog.append({"op": "dg_sortby", "g": gcur, "key": "s"})
            else:
                p = list(range(rows))
                r.shuffle(p)
                if r.random() < 0.15 and rows > 0:
                    p = p[:-1] if r.random() < 0.5 else p + [0]
                if r.random() < 0.2:
                    p = [x - rows if r.random() < 0.5 else x for x in p]
                prog.append({"op": "dg_sortby", "g": gcur, "perm": p, "aslist": r.random() < 0.3})
            prog.append({"op": "obs", "v": gcur})
        elif k < 0.62:
            bad = r.random() < 0.25
            m = new_member(rows + 1 if bad else rows, [] if bad else None) if r.random() < 0.8 else r.choice(pool)
            prog.append({"op": "dg_set", "g": gcur, "key": r.choice(KEYS), "v": m})
        elif k < 0.70:
            items = [[r.choice(KEYS), r.choice(pool) if r.random() < 0.5 else new_member(rows)] for _ in range(r.randint(1, 3))]
            prog.append({"op": "dg_update", "g": gcur, "items": items})
        elif k < 0.78:
            prog.append({"op": "dg_del", "g": gcur, "key": r.choice(KEYS)})
        elif k < 0.84:
            d = fresh()
            prog.append({"op": "dg_pop", "dst": d, "g": gcur, "key": r.choice(KEYS)})
        elif k < 0.90:
            d = fresh()
            prog.append({"op": "get", "dst": d, "a": r.choice(pool), "ix": g.index(rows)})
            prog.append({"op": "obs", "v": d})
        else:
            prog.append({"op": "obs", "v": gcur})
    for gcur, _ in groups[:4]:
        prog.append({"op": "obs", "v": gcur})
    return prog


def witness_program(g):
    """C06_scalar_gate_witness of OsyrisProofs/C06.lean, replayed on the real class."""
    return [
        {"op": "dg_new", "dst": 1},
        {"op": "arr", "dst": 2, "v": g.arr([], "f8", "", values=[Fraction(1)])},
        {"op": "arr", "dst": 3, "v": g.arr([3], "f8", "", values=[Fraction(1), Fraction(2), Fraction(3)])},
        {"op": "arr", "dst": 4, "v": g.arr([4], "f8", "", values=[Fraction(i) for i in range(1, 5)])},
        {"op": "dg_set", "g": 1, "key": "a", "v": 2},
        {"op": "dg_set", "g": 1, "key": "b", "v": 3},
        {"op": "dg_set", "g": 1, "key": "c", "v": 4},
        {"op": "dg_del", "g": 1, "key": "a"},
        {"op": "obs", "v": 1},
    ]


def member_shapes(obs):
    out = []
    for e in obs.get("entries", []):
        m = e["m"]
        out.append(tuple(m["shape"]) if m["k"] == "arr" else tuple(m["comps"][0]["shape"]))
    return out


def spec_invariant_violations(prog, impl_out):
    """Direct oracle on the implementation: a group without scalar members has equal shapes."""
    bad = []
    for op, o in zip(prog, impl_out):
        if op["op"] == "obs" and isinstance(o, dict) and o.get("k") == "dg":
            shapes = member_shapes(o)
            if shapes and all(len(s) > 0 for s in shapes) and len(set(shapes)) > 1:
                bad.append((op, shapes))
    return bad


def has_scalar_insert(prog, osy=None):
    """The known scalar gate: some insertion went into a group whose first member was 0-d at that moment
    (a 0-d Array inserted directly, or the 0-d members left by integer-indexing a group), so `if self.shape and ...`
    skipped the shape test. Decided by replaying the history on the real class and looking at the group before each insertion."""
    zero_d = {o["dst"] for o in prog if o["op"] == "arr" and o["v"]["shape"] == []}
    if any(o["op"] == "dg_set" and o["v"] in zero_d for o in prog) or any(
            o["op"] == "dg_update" and any(v in zero_d for _, v in o["items"]) for o in prog):
        return True
    if osy is None:
        return False
    m = coremachine.PyMachine(osy)
    for op in prog:
        if op["op"] in ("dg_set", "dg_update"):
            try:
                grp = m.env[op["g"]]
                if len(grp) > 0 and grp.shape == ():
                    vals = [op["v"]] if op["op"] == "dg_set" else [v for _, v in op["items"]]
                    if any(getattr(m.env.get(v), "shape", ()) != () for v in vals):
                        return True
            except Exception:  # noqa: BLE001
                pass
        m.run([op])
    return False


def nontrivial(case, impl_out):
    ops = [o["op"] for o in case["prog"]]
    return ("dg_index" in ops or "dg_sortby" in ops) and ("dg_set" in ops)


def classify(prog, actual, expected, diff):
    ops = {o["op"] for o in prog}
    if "dg_sortby" in ops:
        return ("Datagroup.sortby", "any")
    if "dg_index" in ops or "get" in ops:
        return ("Datagroup.__getitem__", "any")
    return ("Datagroup.__setitem__", "any")


def run(ctx):
    g = G(ctx.rng, ctx.osyris, "exact")
    nseq = 300 if ctx.tier == "quick" else 6000
    cases = [{"prog": gen_program(g, ctx.rng.randint(2, 25)), "lane": "exact"} for _ in range(nseq)]
    out = run_programs(ctx, cases, nontrivial, known_classifier=classify)
    # direct invariant oracle on every implementation run + the witness of the scalar gate
    osy = ctx.osyris
    wprog = witness_program(g)
    for prog in [wprog] + [c["prog"] for c in cases]:
        m = coremachine.PyMachine(osy)
        res = m.run(prog)
        for op, shapes in spec_invariant_violations(prog, res):
            cls = WITNESS_SCALAR_GATE if has_scalar_insert(prog, osy) else "non_scalar_history"
            out.violations.append({
                "what": f"non-scalar group with members of different shapes {shapes}",
                "case": {"engine": "core", "prog": prog, "lane": "exact"},
                "call_site": "Datagroup.__setitem__",
                "input_class": cls,
                "actual": res[-1],
            })
            break
    kinds = {}
    for c in cases:
        for o in c["prog"]:
            if o["op"] == "dg_index":
                k = "array-typed" if "ixvar" in o else o["ix"]["k"]
                kinds[k] = kinds.get(k, 0) + 1
            if o["op"] == "dg_sortby":
                kinds["sortby"] = kinds.get("sortby", 0) + 1
    out.distribution = {"index_kinds": kinds}
    out.rule = ("random histories on Datagroups mixing Arrays and 1-3 component Vectors (rows 0..12, dtypes f8/f4/i8/i4, row-id "
                "values so that provenance is observable): insert/replace/update/delete/pop, indexing by int / slice with steps / "
                "bool mask / integer list with repeats / Array-typed index, sortby key and by permutation (incl. wrong lengths); "
                "non-trivial = has an insertion and an index or sort; distinct by program hash. Plus a direct invariant oracle "
                "(equal shapes in groups without scalar members) on every implementation run and the scalar-gate witness")
    return out


def replay(ctx, path):
    return replay_core(ctx, path)
