"""C11 Thick maps reduce the sampled column and scale units consistently.

Real implementation: `osyris.map(layer..., dz=..., operation=..., plot=False)`.  Lean side:
OsyrisModel/MapModel.lean through the "map" engine (shared with C03: harness/props/c03*.py).
  model : as coded - slab pre-selection, depth grid (`round` for the default depth count), kernel,
          reduction along depth, `*zspacing` and unit x length for sum / nansum   -> `disagreements`
  spec  : every pixel = `reduce op` of the column of samples at evenly spaced depths covering
          [-dz/2, dz/2]; each sample = value of the loaded cell containing it (point location over
          ALL loaded cells), missing if none; sum / nansum x depth step, unit x length -> `violations`
Lanes as in C03 (exact: dyadic window, power-of-two pixel and depth counts; tolerant otherwise)."""
import json
from fractions import Fraction

from ..framework import Outcome
from . import c03
from . import c03_mesh as M
from .c03_mesh import driver_kind, run_map  # noqa: F401

PROP = "C11"
TRUSTED = c03.TRUSTED + [
    "numpy's reductions along an axis (np.sum, np.mean, np.min, np.max and the nan-variants) are modelled by MapModel.reduce (all-NaN column: nansum -> 0, the others -> NaN)",
]
ASSUMPTIONS = [
    "cells are pairwise interior-disjoint cubes; cell values may be NaN in 40% of the cases (a NaN value is a missing sample for the nan-reductions and propagates through the others); a pixel whose column has a sample on a cell face while cells of the layer hold NaN is not asserted (the column may or may not have taken the NaN-valued neighbour)",
    "dz > 0 and at least half a pixel when no depth resolution is given (a depth count of 0 makes the code divide by zero: outside the claim, counted)",
    "a sample exactly on a cell face may take the value of any touching cell: the pixel must then lie between the reductions of the per-sample minimum and maximum (all eight reductions are monotone in every sample)",
    "tolerant lane: pixels whose column has a sample within 1e-9 cell sizes of a face are counted as near ties, not asserted",
    "'as close as possible to the pixel size' is read as: the depth count is the integer nearest to depth / pixel size, ties to even (depth_count_nearest)",
]

RATIOS = c03.RATIOS
ZRES_EXACT = [1, 2, 4, 8, 16]
ZRES = [1, 2, 3, 4, 5, 8, 16]


def add_depth(r, c, mesh, sref, exact, quick):
    den = mesh["den"]
    nx, ny, _ = M.res_xyz(c)
    ratio = r.choice(RATIOS + [None])
    if ratio is None:
        depth = Fraction(mesh["box"]["side"])
        dtag = "dz=domain"
    else:
        depth = ratio * sref
        dtag = f"dz/s={ratio}"
    # (with dx omitted the window comes from the data; dz must still be read in its own unit: drawn in another unit more often)
    if (exact and c.get("dx") is not None) or r.random() < (0.35 if c.get("dx") is None else 0.6):
        c["dz"] = {"v": float(depth / den), "unit": "cm"}
    else:
        u = r.choice(["m", "au", "mm"])
        f = {"m": 100.0, "au": 1.495978707e13, "mm": 0.1}[u]
        c["dz"] = {"v": float(depth / den) / f, "unit": u}
    c["op"] = r.choice(M.OPS)
    # resolution: int / dict without z / dict with z
    cap = 2048 if quick else 16384
    t = r.random()
    ztag = "default"
    if t < 0.45:
        zc = [z for z in (ZRES_EXACT if exact else ZRES) if nx * ny * z <= cap] or [1]
        nz = r.choice(zc)
        c["res"] = {"x": nx, "y": ny, "z": nz}
        ztag = "given"
    elif t < 0.7:
        c["res"] = {"x": nx, "y": ny}
        ztag = "dict_without_z"
    # keep the default depth count affordable: shrink the pixel counts if depth / pixel is large
    if "z" not in (c["res"] if isinstance(c["res"], dict) else {}):
        if c.get("dx") is not None:
            px = float(c["dx"]["v"]) * {"cm": 1.0, "m": 100.0, "au": 1.495978707e13, "pc": 3.0856775814913673e18, "km": 1e5, "mm": 0.1}[c["dx"]["unit"]] / nx
            nzest = float(depth / den) / px
            if nzest * nx * ny > cap or nzest > 64:
                nz = r.choice([1, 2, 4, 8])
                c["res"] = {"x": nx, "y": ny, "z": nz}
                ztag = "given"
        else:
            c["res"] = {"x": nx, "y": ny, "z": r.choice([1, 2, 4])}
            ztag = "given"
    return dtag, ztag


def gen_thick(ctx, n):
    r = ctx.rng
    quick = ctx.tier == "quick"
    base = c03.gen_structured(ctx, n)
    cases = []
    for c in base:
        nd = c["ndim"]
        mesh = {"ndim": nd, "den": c["den"], "box": {"side": c["gen"]["box_side"]}}
        sref = c["gen"]["sref"]
        exact = c["gen"]["exact_wanted"]
        if r.random() < 0.6:
            for lay in c["layers"]:           # most thick maps: finite cell values; the others keep their NaN cell values
                if lay["kind"] == "scalar":
                    lay["vals"] = [0.5 if v is None else v for v in lay["vals"]]
        if c["direction"]["kind"] == "str":
            c["direction"] = {"kind": "vec", "v": [1, 2, 2]}
        # smaller images: the oracle samples nx * ny * nz points
        nx, ny, _ = M.res_xyz(c)
        lim = 16 if quick else 32
        if nx > lim or ny > lim:
            c["res"] = {"x": min(nx, lim), "y": min(ny, lim)} if isinstance(c["res"], dict) else min(nx, lim)
        dtag, ztag = add_depth(r, c, mesh, sref, exact, quick)
        # some layers carry their own reduction (Layer(operation=...)): it wins over the call's for that layer's rows,
        # and only the rows reduced by sum / nansum are scaled by the depth step (value and unit)
        ltag = "call_op_only"
        if r.random() < (0.55 if len(c["layers"]) > 1 else 0.25):
            for lay in c["layers"]:
                if r.random() < 0.6:
                    lay["op"] = r.choice([o for o in M.OPS if o != c["op"]])
            if any(l.get("op") for l in c["layers"]):
                ltag = "layer_ops"
        c["tags"] = ["thick"] + c["tags"][1:5] + [c["op"] + "|" + ltag, dtag, ztag]
        cases.append(c)
    return cases


def witness_cases():
    out = []
    # slab_unsound_witness: cells of size 1, dz = 1/4, the slab in the middle of a cell layer
    m = M.uniform_mesh(3, 2, den=2)          # 8 cells of size 1 in [0, 2]^3
    c = c03.base_case(None, m, [{"key": "density", "kind": "scalar", "unit": "g/cm**3", "vals": [float(i + 1) for i in range(8)]}])
    c.update(origin=[1.0, 1.0, 0.5], direction={"kind": "letter", "s": "z"}, dx={"v": 2.0, "unit": "cm"}, dz={"v": 0.25, "unit": "cm"},
             res={"x": 4, "y": 4, "z": 2}, op="mean", tags=["witness", "3d", "letter", "cellcentre", "slab_unsound_witness", "mean", "dz/s=1/4", "given"])
    out.append(c)
    c2 = dict(c, op="sum", res=4, dz={"v": 0.5, "unit": "cm"}, origin=[1.0, 1.0, 0.5],
              tags=["witness", "3d", "letter", "cellcentre", "slab_half_cell", "sum", "dz/s=1/2", "default"])
    out.append(c2)
    # slab far thicker than the cells: the coded distance is generous, nothing may be lost (radial test aside)
    c3 = dict(c, op="sum", res={"x": 2, "y": 2, "z": 4}, dz={"v": 2.0, "unit": "cm"}, origin=[1.0, 1.0, 1.0],
              tags=["witness", "3d", "letter", "boxcentre", "slab_whole_box", "sum", "dz=domain", "given"])
    out.append(c3)
    # 2-D data with a depth: every sample of a column sees the same cell
    m2 = M.uniform_mesh(2, 2)
    c4 = c03.base_case(None, m2, [{"key": "density", "kind": "scalar", "unit": "g/cm**3", "vals": [1.0, 2.0, 3.0, 4.0]}])
    c4.update(origin=[0.5, 0.5, 0.0], direction={"kind": "letter", "s": "z"}, dx={"v": 1.0, "unit": "cm"}, dz={"v": 0.5, "unit": "cm"},
              res={"x": 2, "y": 2, "z": 4}, op="sum", tags=["witness", "2d", "letter", "boxcentre", "depth_on_2d_data", "sum", "dz/s=1", "given"])
    out.append(c4)
    # dx omitted (the window comes from the data) and dz given in another unit than the positions: the depth window is
    # [-dz/2, dz/2] in the positions' unit, whatever unit dz was given in
    c5 = dict(c, dx=None, dz={"v": 0.005, "unit": "m"}, res={"x": 4, "y": 4, "z": 2}, op="mean", origin=[1.0, 1.0, 1.0],
              tags=["witness", "3d", "letter", "boxcentre", "dx_omitted_dz_in_metres", "mean", "dz/s=1/2", "given"])
    out.append(c5)
    c6 = dict(c5, op="nansum", dz={"v": 10.0, "unit": "mm"}, tags=["witness", "3d", "letter", "boxcentre", "dx_omitted_dz_in_mm", "nansum", "dz/s=1", "given"])
    out.append(c6)
    return out


def gen_depth_ratios(ctx, n):
    """boundary stream for (8): depth / pixel ratios on and around the ties of `round`, default depth count,
    columns that cross several cells of different values"""
    r = ctx.rng
    cases = []
    ratios = [Fraction(3, 4), Fraction(5, 4), Fraction(3, 2), Fraction(7, 4), Fraction(5, 2), Fraction(11, 4), Fraction(7, 2), Fraction(9, 2),
              Fraction(1, 2), Fraction(5, 8), Fraction(13, 8), Fraction(2), Fraction(3)]
    for t in range(n):
        nb = r.choice([4, 8])
        m = M.uniform_mesh(3, nb, den=r.choice([nb, 2 * nb, 4 * nb]))
        perm = list(range(nb ** 3))
        r.shuffle(perm)
        c = c03.base_case(r, m, [{"key": "density", "kind": "scalar", "unit": "g/cm**3", "vals": [float(p + 1) for p in perm]}])
        den = m["den"]
        npx = r.choice([2, 4])
        ratio = ratios[t % len(ratios)]
        pix = Fraction(r.choice([1, 2, 4]))                  # pixel size in lattice units (cell size 2)
        o = [Fraction(nb) + Fraction(r.choice([0, 1, 3]), 4) for _ in range(3)]
        d = r.choice("xyz")
        c.update(origin=[float(t_ / den) for t_ in o], direction={"kind": "letter", "s": d},
                 dx={"v": float(pix * npx / den), "unit": "cm"}, dz={"v": float(ratio * pix / den), "unit": "cm"},
                 res=r.choice([npx, {"x": npx, "y": npx}]), op=r.choice(["min", "max", "nansum", "mean", "sum", "nanmean"]),
                 tags=["depth_ratio", "3d", "letter", "generic", f"dz/pixel={ratio}", "default_depth_count"])
        c["tags"] = ["depth_ratio", "3d", "letter", "generic", "dx/s=" + str(pix * npx / 2), c["op"], f"dz/pixel={ratio}", "default"]
        cases.append(c)
    return cases


def depth_count_lane(ctx, out, dist):
    """(8) Python `round` vs MapModel.roundHalfEven, on ties and around them"""
    r = ctx.rng
    qs = [Fraction(k, 2) for k in range(0, 41)] + [Fraction(k, 2) + Fraction(s, 2 ** 20) for k in range(1, 30, 2) for s in (-1, 1)]
    qs += [Fraction(r.randrange(0, 4000), r.choice([3, 7, 8, 10, 64])) for _ in range(60 if ctx.tier == "quick" else 600)]
    ans = run_map([{"engine": "mapround", "qs": [M.fstr(q) for q in qs]}])[0]["round"]
    for q, a in zip(qs, ans):
        out.evaluations += 1
        dist["depth_count:round"] = dist.get("depth_count:round", 0) + 1
        want = round(float(q))
        if float(q) != q:
            continue
        if a != want:
            out.disagreements.append(({"round": str(q)}, f"Python round({float(q)}) = {want}, model roundHalfEven = {a}"))
        if abs(Fraction(a) - q) > Fraction(1, 2):
            out.disagreements.append(({"round": str(q)}, "model depth count further than 1/2 from depth / pixel (contradicts depth_count_nearest)"))


def run(ctx):
    out = Outcome()
    src = M.detect_source()
    sel = {k: src[k] for k in ("slab", "radial", "depth", "depth2d")}
    out.extra["extraction"] = {"map.py": src}
    out.extra["geometry_driver"] = driver_kind()
    dist = {}
    quick = ctx.tier == "quick"
    cases = witness_cases() + gen_thick(ctx, 120 if quick else 800) + gen_depth_ratios(ctx, 26 if quick else 260)
    recs = c03.evaluate(ctx, out, cases, sel, dist, prop=PROP)
    c03.thread_lane(ctx, out, recs, dist)
    c03.model_lanes(ctx, out, recs, sel, dist)
    depth_count_lane(ctx, out, dist)
    lanes = {}
    for rc in recs:
        lanes[rc.get("lane", "?")] = lanes.get(rc.get("lane", "?"), 0) + 1
    out.extra["lanes"] = lanes
    out.distribution = dict(sorted(dist.items()))
    out.rule = ("osyris.map(dz=..., operation=..., plot=False) on the meshes, origins, directions, windows and layer sets of C03, with "
                f"dz/s in {[str(q) for q in RATIOS]} and the box size (dz in cm or another length unit), the eight reductions {M.OPS}, "
                "resolution int / dict without z (default depth count) / dict with z; witnesses of slab_unsound_witness, a slab thicker than "
                "the box, 2-D data with a depth. impl vs model as coded and impl vs Spec (column of point locations over all loaded cells, "
                "reduction, depth step, unit). thread lane and model lanes as in C03; Python round vs the model's depth count on ties. "
                "non-trivial = several depth samples or several cells or an empty pixel; distinct by case hash")
    return out


def replay(ctx, path):
    return c03.replay(ctx, path)
