"""Runner for the geometry engines of the Lean driver ("hist" for C05, "basis" for C18).

`run_geom(lines)` sends JSON cases to the compiled driver (`lean/.lake/build/bin/driver`) if it
understands the engine (Driver/Geom.lean wired into Driver/Main.lean); otherwise it falls back to
interpreting `Driver/GeomMain.lean` (`lean --run`, with `Driver/Geom.lean` compiled to a private
.olean under /verif/.work/geom_build because the lake project has no target for it yet).
`VERIF_GEOM_DRIVER=<binary>` overrides both (a natively built GeomMain)."""
import json
import os
import subprocess

from .. import lean
from ..env import VERIF

WORK = os.path.join(VERIF, ".work")
PRIV = os.path.join(WORK, "geom_build")
_mode = {}

PROBE = {"engine": "hist", "level": "sched", "disc": "serial", "size": 1, "chunks": [[[0, "1"]]], "sched": []}


def _run(cmd, lines, env=None, timeout=3600):
    inp = "\n".join(json.dumps(c, separators=(",", ":")) for c in lines) + "\n"
    p = subprocess.run(cmd, input=inp, stdout=subprocess.PIPE, stderr=subprocess.PIPE, text=True,
                       timeout=timeout, cwd=lean.LEAN_DIR, env=env)
    if p.returncode != 0:
        raise RuntimeError("geometry driver failed: " + (p.stderr or p.stdout)[-2000:])
    out = [json.loads(l) for l in p.stdout.splitlines() if l.strip()]
    if len(out) != len(lines):
        raise RuntimeError(f"geometry driver returned {len(out)} lines for {len(lines)} cases: {p.stderr[-500:]}")
    return out


def _understands(cmd, env=None):
    try:
        r = _run(cmd, [PROBE], env=env, timeout=600)
        return r[0].get("img") == ["1"]
    except Exception:  # noqa: BLE001
        return False


def _fallback_env():
    """Build what `lean --run Driver/GeomMain.lean` needs and return its environment."""
    ok, log, _ = lean.lake_build(["OsyrisModel.Hist", "OsyrisModel.Basis"])
    if not ok:
        raise RuntimeError("model does not build: " + log[-2000:])
    with lean.Locked():
        lp = subprocess.run(["lake", "env", "printenv", "LEAN_PATH"], cwd=lean.LEAN_DIR, stdout=subprocess.PIPE,
                            text=True, check=True).stdout.strip()
        src = os.path.join(lean.LEAN_DIR, "Driver", "Geom.lean")
        olean = os.path.join(PRIV, "Driver", "Geom.olean")
        deps = [src] + [os.path.join(lean.LEAN_DIR, ".lake", "build", "lib", "lean", "OsyrisModel", m + ".olean")
                        for m in ("Basic", "Hist", "Basis")]
        stale = (not os.path.exists(olean)) or any(os.path.getmtime(d) > os.path.getmtime(olean) for d in deps if os.path.exists(d))
        if stale:
            os.makedirs(os.path.dirname(olean), exist_ok=True)
            env = dict(os.environ, LEAN_PATH=lp)
            p = subprocess.run(["lean", "-o", olean, src], cwd=lean.LEAN_DIR, stdout=subprocess.PIPE,
                               stderr=subprocess.STDOUT, text=True, env=env)
            if p.returncode != 0:
                raise RuntimeError("Driver/Geom.lean does not compile: " + p.stdout[-2000:])
    return dict(os.environ, LEAN_PATH=PRIV + os.pathsep + lp)


def driver_kind():
    """Which executable answers: 'override' | 'driver' | 'lean --run'."""
    if "kind" in _mode:
        return _mode["kind"]
    ov = os.environ.get("VERIF_GEOM_DRIVER")
    if ov and os.path.exists(ov) and _understands([ov]):
        _mode.update(kind="override", cmd=[ov], env=None)
    elif os.path.exists(lean.DRIVER) and _understands([lean.DRIVER]):
        _mode.update(kind="driver", cmd=[lean.DRIVER], env=None)
    else:
        env = _fallback_env()
        _mode.update(kind="lean --run", cmd=["lean", "--run", os.path.join("Driver", "GeomMain.lean")], env=env)
    return _mode["kind"]


def run_geom(lines, timeout=3600):
    """One JSON case per line in, one JSON result per line out."""
    if not lines:
        return []
    driver_kind()
    return _run(_mode["cmd"], lines, env=_mode["env"], timeout=timeout)
