"""C10 numpy functions on Arrays return dimensionally correct units or refuse."""
import json
from fractions import Fraction

import numpy as np

from .. import coremachine, lean, ucat
from ..framework import Outcome, case_hash
from ..gencore import G

TRUSTED = ["numpy itself computes the values (the check compares them with numpy on the raw values)",
           "the catalogue of functions and their classes (NumpyUnits.lean: catalogueA..D)"]
ASSUMPTIONS = ["index-returning and transcendental functions are outside the catalogue"]

CAT_A = ["sum", "mean", "amin", "amax", "min", "max", "abs", "absolute", "median", "std", "cumsum", "sort", "diff",
         "nansum", "nanmean", "nanmin", "nanmax", "negative", "average", "ptp"]
CAT_B2 = ["add", "subtract", "maximum", "minimum"]
CAT_BSEQ = ["concatenate", "stack", "hstack", "vstack"]
CAT_C1 = ["sqrt", "square", "cbrt", "reciprocal"]
CAT_C2 = ["multiply", "divide", "true_divide"]
CAT_D1 = ["isnan", "isfinite", "isinf", "logical_not"]
CAT_D2 = ["less", "less_equal", "greater", "greater_equal", "equal", "not_equal", "logical_and", "logical_or", "logical_xor"]
AXIS_OK = {"sum", "mean", "amin", "amax", "min", "max", "median", "std", "cumsum", "sort", "diff", "nansum", "nanmean",
           "nanmin", "nanmax", "average", "ptp"}


def mk(osy, spec):
    """spec: dict(shape, dtype, data(list of Fraction), ustr or None)"""
    arr = coremachine.np_from_json({"shape": spec["shape"], "dtype": spec["dtype"], "data": [str(x) for x in spec["data"]]})
    if spec.get("ustr") is None:
        if spec.get("plain") == "num":
            return float(arr.ravel()[0]), float(arr.ravel()[0])
        return arr, arr
    return osy.Array(values=arr.copy(), unit=spec["ustr"]), arr


def gen_cases(g, n):
    r = g.rng
    fams = g.families()
    cases = []
    for _ in range(n):
        fam = r.choice([f for f in sorted(fams) if f != "dimensionless"])
        ua = r.choice(fams[fam])
        mode = r.choice(["same", "same", "compatible", "incompatible", "plain"])
        if mode == "same":
            ub = ua
        elif mode == "compatible":
            ub = r.choice([u for u in fams[fam] if u != ua] or [ua])
        elif mode == "incompatible":
            ub = r.choice(fams[r.choice([f for f in sorted(fams) if f not in (fam, "dimensionless")])])
        else:
            ub = None
        dt = r.choice(["f8", "f8", "f4", "i8", "i4"])
        shape = r.choice([[4], [3], [2, 3], [1]])
        sz = 1
        for d in shape:
            sz *= d
        pos = [Fraction(r.choice([1, 4, 9, 16, 25, 64])) for _ in range(sz)]
        anyv = [Fraction(r.randint(-20, 20)) for _ in range(sz)]
        cls = r.choice(["A", "A", "B2", "BSEQ", "C1", "C2", "POW", "D1", "D2", "APPEND"])
        kw = {}
        a = {"shape": shape, "dtype": dt, "data": anyv, "ustr": ua}
        b = {"shape": shape, "dtype": r.choice(["f8", dt]), "data": [Fraction(r.randint(1, 9)) for _ in range(sz)],
             "ustr": ub, "plain": r.choice(["nd", "num"])}
        if b["ustr"] is None and b["plain"] == "num":
            b = dict(b, shape=[], data=b["data"][:1])
        k = None
        if cls == "A":
            name = r.choice(CAT_A)
            args = [a]
            form = r.choice(["plain", "plain", "axis", "out"])
            if form == "axis" and name in AXIS_OK:
                kw = {"axis": r.choice([0, -1])}
            elif form == "out" and name in ("absolute", "abs", "negative"):
                kw = {"out": True}
            klass = "A"
        elif cls == "B2":
            name, args, klass = r.choice(CAT_B2), [a, b], "B"
            if r.random() < 0.2 and ub is not None:
                kw = {"out": True}
        elif cls == "BSEQ":
            name, args, klass = r.choice(CAT_BSEQ), [a, dict(b, shape=shape, data=(b["data"] * sz)[:sz])], "B"
            if args[1]["ustr"] is None:
                args[1]["plain"] = "nd"
            if r.random() < 0.3:
                kw = {"axis": 0}
        elif cls == "APPEND":
            name, args, klass = "append", [a, dict(b, shape=shape, data=(b["data"] * sz)[:sz], plain="nd")], "B"
        elif cls == "C1":
            name = r.choice(CAT_C1)
            a = dict(a, data=pos, dtype=r.choice(["f8", "f4"]) if name == "reciprocal" else dt)
            args, klass = [a], "C"
            if r.random() < 0.2:
                kw = {"out": True}
        elif cls == "C2":
            name, args, klass = r.choice(CAT_C2), [a, b], "C"
            if r.random() < 0.2 and ub is not None:
                args = [dict(b, plain="nd"), a] if b["ustr"] is None else [b, a]
        elif cls == "POW":
            name, klass = "power", "C"
            k = r.choice([Fraction(2), Fraction(3), Fraction(1, 2), Fraction(-1), Fraction(0)])
            a = dict(a, data=pos, dtype=r.choice(["f8", "f4"]))
            args = [a]
            # the exponent as a Python number, a numpy scalar, a 0-d ndarray or a full-size ndarray (uniform)
            kw = {"kform": r.choice(["py", "py", "npscalar", "nd0", "ndfull"])}
        elif cls == "D1":
            name, args, klass = r.choice(CAT_D1), [a], "D"
        else:
            name, args, klass = r.choice(CAT_D2), [a, b], "D"
        if kw.get("out") and isinstance(getattr(np, name), np.ufunc) and r.random() < 0.5:
            # out= together with where=: elements where the mask is False keep what the target held before the call
            kw = dict(kw, where=[r.random() < 0.5 for _ in range(sz)])
        cases.append({"name": name, "cls": klass, "args": args, "kw": kw, "k": k, "mode": mode if len(args) > 1 else "single",
                      "lane": g.lane})
    return cases


def ser(case):
    def s(a):
        return {**a, "data": [str(x) for x in a["data"]]}
    return {"name": case["name"], "cls": case["cls"], "args": [s(a) for a in case["args"]], "kw": case["kw"],
            "k": None if case["k"] is None else str(case["k"]), "mode": case["mode"], "lane": case["lane"]}


def run_one(osy, case):
    """Returns dict(impl=..., raw=..., err=...)."""
    name = case["name"]
    f = getattr(np, name)
    objs, raws = [], []
    for a in case["args"]:
        o, rw = mk(osy, a)
        objs.append(o)
        raws.append(rw)
    kw = {k_: v_ for k_, v_ in case["kw"].items() if k_ != "kform"}
    kw_raw = dict(kw)
    out_obj = None
    if kw.get("out"):
        first = next(o for o in objs if isinstance(o, osy.Array))
        out_obj = osy.Array(values=np.zeros(first.shape, dtype=np.float64), unit="vt1" if case["lane"] == "exact" else "s")
        kw["out"] = out_obj
        kw_raw["out"] = np.zeros(first.shape, dtype=np.float64)
        if kw.get("where") is not None:
            prev = np.arange(1, int(np.prod(first.shape, dtype=int)) + 1, dtype=np.float64).reshape(first.shape) * 0.25      # what the target holds before
            out_obj._array[...] = prev
            kw_raw["out"][...] = prev
            mask = np.array(kw["where"], dtype=bool).reshape(first.shape)
            kw["where"] = mask
            kw_raw["where"] = mask
    seq = name in CAT_BSEQ
    if name == "power":
        kk = float(case["k"]) if case["k"].denominator != 1 else int(case["k"])
        kform = case["kw"].get("kform", "py")
        if kk == -1:
            kk = -1.0  # numpy refuses negative integer powers of integers; the base is float here anyway
        if kform == "npscalar":
            kk = np.float64(kk) if isinstance(kk, float) else np.int64(kk)
        elif kform == "nd0":
            kk = np.array(kk)
        elif kform == "ndfull":
            kk = np.full(np.shape(raws[0]), kk)
        call_args, raw_args = [objs[0], kk], [raws[0], kk]
    elif seq:
        call_args, raw_args = [objs], [raws]
    else:
        call_args, raw_args = objs, raws
    res = {"impl_err": None, "raw_err": None}
    try:
        with np.errstate(all="ignore"):
            rawv = f(*raw_args, **kw_raw)
        res["raw"] = np.asarray(rawv)
    except Exception as e:  # noqa: BLE001
        res["raw_err"] = coremachine.classify(e)
    try:
        with np.errstate(all="ignore"):
            r = f(*call_args, **kw)
        res["impl"] = r
        res["out_is_result"] = (r is out_obj) if out_obj is not None else None
    except Exception as e:  # noqa: BLE001
        res["impl_err"] = coremachine.classify(e)
    res["self_unit"] = next((o.unit for o in (objs if not seq else objs) if isinstance(o, osy.Array)), None)
    res["arg_units"] = [o.unit if isinstance(o, osy.Array) else None for o in objs]
    return res


def upow_matches(osy, unit, p, tol=1e-9):
    """impl pint unit vs model UPow {base,num,den,d}"""
    f, d = ucat.unit_fd(osy, unit)
    want_d = [Fraction(x) for x in p["d"]]
    if [Fraction(x).limit_denominator(12) for x in d] != want_d:
        return False
    base = Fraction(p["base"])
    num, den = int(p["num"]), int(p["den"])
    if den == 1:
        want = base ** num if base != 0 else Fraction(0)
        return abs(f - want) <= Fraction(tol).limit_denominator(10 ** 12) * abs(want)
    wantf = float(base) ** (num / den)
    return abs(float(f) - wantf) <= 1e-9 * abs(wantf)


def run(ctx):
    osy = ctx.osyris
    n = 700 if ctx.tier == "quick" else 15000
    ge = G(ctx.rng, osy, "exact")
    gt = G(ctx.rng, osy, "tol")
    cases = gen_cases(ge, n // 2) + gen_cases(gt, n - n // 2)
    out = Outcome()
    results = [run_one(osy, c) for c in cases]
    lines = []
    idx = []
    for i, (c, r) in enumerate(zip(cases, results)):
        out.evaluations += 1
        if r["raw_err"] is not None:
            continue  # numpy itself refuses these raw values (e.g. shape mismatch): nothing to say about units
        dt = coremachine.DTNAME.get(np.dtype(r["raw"].dtype).name)
        if dt is None or r["self_unit"] is None:
            continue
        if c["kw"].get("out"):
            dt = "f8"
        lines.append({"engine": "npunit", "name": getattr(np, c["name"]).__name__, "cls": c["cls"], "resdt": dt,
                      "self": ucat.unit_json(osy, r["self_unit"]),
                      "args": [None if u is None else ucat.unit_json(osy, u) for u in r["arg_units"]],
                      "k": "1" if c["k"] is None else ucat.rat_str(c["k"])})
        idx.append(i)
    answers = lean.run_driver(lines) if lines else []
    dist = {}
    for i, ans in zip(idx, answers):
        c, r = cases[i], results[i]
        out.compared += 1
        ckw = {k_: v_ for k_, v_ in c["kw"].items() if k_ != "kform"}
        key = f"{c['cls']}:{c['name']}:{c['mode']}:{'kw' if ckw else c['kw'].get('kform', 'nokw')}"
        dist[key] = dist.get(key, 0) + 1
        if c["mode"] in ("compatible", "incompatible", "plain") or ckw or c["cls"] in ("C", "D"):
            out.nontrivial.add(case_hash(ser(c)))
        if len(out.samples) < 4:
            out.samples.append({"call": ser(c), "model": ans.get("model"), "spec": ans.get("spec"),
                                "impl_unit": None if r["impl_err"] else str(getattr(r["impl"], "unit", None))})
        model, spec = ans.get("model"), ans.get("spec")
        if r["impl_err"] is None and hasattr(r["impl"], "unit"):
            try:
                ucat.plain_unit(osy, r["impl"].unit)
            except ucat.MalformedUnit as e:
                out.violations.append({"what": f"the result carries a malformed unit ({e}): converting, adding or printing it raises TypeError",
                                       "case": ser(c), "call_site": "Array._wrap_numpy", "input_class": "malformed-unit"})
                continue
        if c["kw"].get("kform") == "ndfull" and not all(Fraction(x) == 0 for x in ucat.unit_fd(osy, r["self_unit"])[1]):
            # pint refuses a non-scalar exponent on a dimensioned base (its documented behaviour, modelled here): the call
            # raises, which the property allows ("... or the call raises"); a result, if any, must still carry unit**k (Spec)
            if r["impl_err"] is not None:
                continue
            model = spec
        # ---- tie (b): impl vs model (units as coded)
        if r["impl_err"] is not None:
            d = f"impl raised {r['impl_err']}, model returns {model}"
            out.disagreements.append((ser(c), d))
        else:
            impl = r["impl"]
            if not hasattr(impl, "unit"):
                out.disagreements.append((ser(c), "result is not an Array"))
            elif model == "refuse" or not upow_matches(osy, impl.unit, model):
                out.disagreements.append((ser(c), f"unit: impl={impl.unit} model={model}"))
        # ---- values: what numpy returns on the raw values
        viol = None
        if r["impl_err"] is None and hasattr(r["impl"], "values"):
            if not np.array_equal(np.asarray(r["impl"].values), r["raw"], equal_nan=True):
                viol = ("values differ from numpy on the raw values", "values")
            elif c["kw"].get("out") and r["out_is_result"] is False:
                viol = ("out= array is not the returned object", "out")
        # ---- Spec: dimensional analysis
        if viol is None:
            mixed = len([u for u in r["arg_units"]]) > 1 and c["mode"] in ("compatible", "incompatible", "plain")
            if r["impl_err"] is not None:
                if spec != "refuse":
                    viol = (f"call raises {r['impl_err']} although the dimensionally correct result exists ({spec})",
                            "kwargs" if ckw else "raises")
            elif spec == "refuse":
                viol = (f"operands in different units combined as if they shared one: result unit {r['impl'].unit}", "np_binary_mixed_units")
            elif c["cls"] == "D" and mixed and len(c["args"]) == 2 and c["name"] not in ("logical_and", "logical_or", "logical_xor"):
                viol = ("comparison ufunc compares raw values of operands in different units", "np_binary_mixed_units")
            elif not upow_matches(osy, r["impl"].unit, spec):
                viol = (f"unit {r['impl'].unit} but dimensional analysis gives {spec}", "unit:" + c["name"])
        if viol:
            out.violations.append({"what": viol[0], "case": ser(c), "call_site": "Array._wrap_numpy",
                                   "input_class": viol[1]})
    out.distribution = {"class:function:units:kw": dict(sorted(dist.items())[:60]), "n_keys": len(dist)}
    out.rule = ("every function of the fixed catalogue (classes A preserving / B same-unit / C transforming / D predicates) called on "
                "Arrays with unit assignments {same, compatible-different, incompatible, plain ndarray/number}, dtypes f8/f4/i8/i4, "
                "1-d/2-d shapes, keyword forms axis= and out=; values compared with numpy on the raw values, unit with the model "
                "(as coded) and the Spec (dimensional analysis). non-trivial = mixed units, keyword form, or class C/D; distinct by case hash")
    return out


def replay(ctx, path):
    payload = json.load(open(path))
    c = payload["case"]
    c = dict(c, args=[dict(a, data=[Fraction(x) for x in a["data"]]) for a in c["args"]], k=None if c["k"] is None else Fraction(c["k"]))
    r = run_one(ctx.osyris, c)
    print({k: (str(v) if k in ("impl", "raw") else v) for k, v in r.items() if k not in ("arg_units", "self_unit")})
    print("re-run the check to classify: /venv/bin/python check.py C10")
    return 0
