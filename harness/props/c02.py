"""C02 Array arithmetic equals arithmetic on the physical quantities it represents."""
from fractions import Fraction

from ..gencore import G, replay_core, run_programs

TRUSTED = ["numpy dtype promotion for array operands (table DType.promote / promoteDiv) and 'same_kind' casting"]
ASSUMPTIONS = [
    "exact lane: dyadic values and power-of-two unit factors, so every float operation osyris performs is exact and results must be equal as rationals",
    "tolerant lane: real catalogue units, results compared within 1e-9 relative",
]

DTYPES = ["f8", "f4", "i8", "i4"]
POW2 = [Fraction(1), Fraction(2), Fraction(4), Fraction(8), Fraction(1, 2), Fraction(1, 4), Fraction(-1), Fraction(-2), Fraction(-1, 2)]
POW2I = [Fraction(1), Fraction(2), Fraction(4), Fraction(8), Fraction(-1), Fraction(-2), Fraction(-4)]


def shapes_pair(r):
    n = r.choice([1, 2, 3, 5])
    m = r.choice([1, 2, 3])
    return r.choice([
        ([], []), ([n], [n]), ([n], []), ([], [n]), ([n, m], [n, m]), ([n, m], [m]), ([m], [n, m]),
        ([n, 1], [m]), ([n, m], [n, 1]), ([n], [1]), ([0], [0]), ([0], []), ([n], [n + 1]), ([n, m], [n]),
    ])


def size(shape):
    k = 1
    for d in shape:
        k *= d
    return k


def gen_case(g):
    r = g.rng
    fams = g.families()
    fam = r.choice(sorted(fams))
    ua = r.choice(fams[fam])
    compat = r.random() < 0.7
    if compat:
        ub = r.choice(fams[fam])
    else:
        ub = r.choice(fams[r.choice(sorted(fams))])
    sa, sb = shapes_pair(r)
    dts = DTYPES if g.lane == "exact" else ["f8", "i8", "i4"]  # f4 rounding (6e-8) is only compared in the exact lane
    da, db = r.choice(dts), r.choice(dts)
    kind = r.choice(["add", "sub", "mul", "div", "add", "sub", "mul", "div", "neg", "pow", "rmul", "rdiv"])
    prog = []
    exact = g.lane == "exact"
    if kind in ("add", "sub", "mul", "div"):
        pyk = r.choice(["var", "var", "var", "num", "nd", "qty"])
        a = g.arr(sa, da, ua)
        if kind == "div":
            pool = POW2I if db in ("i4", "i8") else POW2
            bvals = [r.choice(pool) if exact else (g.value(db) or Fraction(3)) for _ in range(size(sb))]
            bvals = [v if v != 0 else Fraction(1) for v in bvals]
        else:
            bvals = None
        if pyk == "num":
            sb = []
            db = r.choice(["i8", "f8"])
            ub_eff = ""
            if kind == "div":
                bvals = [r.choice(POW2I if db == "i8" else POW2)] if exact else [Fraction(r.randint(1, 9))]
        elif pyk == "nd":
            ub_eff = ""
        else:
            ub_eff = ub
        b = g.arr(sb, db, ub_eff, values=bvals)
        prog.append({"op": "arr", "dst": 1, "v": a})
        if pyk == "var":
            prog.append({"op": "arr", "dst": 2, "v": b})
            rhs = {"k": "var", "v": 2}
        else:
            rhs = {"k": "val", "py": pyk, "v": b}
        prog.append({"op": "bin", "dst": 3, "name": kind, "a": 1, "rhs": rhs})
        prog.append({"op": "obs", "v": 3})
        prog.append({"op": "obs", "v": 1})
        if pyk == "var":
            prog.append({"op": "obs", "v": 2})
        tags = (kind, pyk, da, db, ua != ub_eff)
    elif kind == "neg":
        prog.append({"op": "arr", "dst": 1, "v": g.arr(sa, da, ua)})
        prog.append({"op": "un", "dst": 3, "name": "neg", "a": 1})
        prog.append({"op": "obs", "v": 3})
        prog.append({"op": "obs", "v": 1})
        tags = (kind, da)
    elif kind == "pow":
        k = r.choice([0, 1, 2, 3, 2, -1, -2])
        prog.append({"op": "arr", "dst": 1, "v": g.arr(sa, da, ua, small=True, nonzero=(k < 0),
                                                     values=None if k >= 0 or not exact else [r.choice(POW2I if da in ("i4", "i8") else POW2) for _ in range(size(sa))])})
        prog.append({"op": "pow", "dst": 3, "a": 1, "k": k})
        prog.append({"op": "obs", "v": 3})
        tags = (kind, da, k)
    elif kind == "rmul":
        dk = r.choice(["i8", "f8"])
        pyk = r.choice(["num", "num", "nd"])
        prog.append({"op": "arr", "dst": 1, "v": g.arr(sa, da, ua)})
        kv = g.arr([] if pyk == "num" else sb, dk if pyk == "num" else db, "")
        prog.append({"op": "rbin", "dst": 3, "name": "mul", "a": 1, "lhs": kv, "py": pyk})
        prog.append({"op": "obs", "v": 3})
        tags = (kind, da, pyk)
    else:  # rdiv: k / a == reciprocal(a / k); exact only for powers of two
        dk = r.choice(["i8", "f8"])
        pool_a = POW2I if da in ("i4", "i8") else POW2
        avals = [r.choice(pool_a) if exact else Fraction(r.randint(1, 50)) for _ in range(size(sa))]
        kval = [r.choice(POW2I if dk == "i8" else POW2) if exact else Fraction(r.randint(1, 9))]
        prog.append({"op": "arr", "dst": 1, "v": g.arr(sa, da, ua, values=avals)})
        prog.append({"op": "rbin", "dst": 3, "name": "div", "a": 1, "lhs": g.arr([], dk, "", values=kval), "py": "num"})
        prog.append({"op": "obs", "v": 3})
        tags = (kind, da, dk)
    return {"prog": prog, "lane": g.lane, "tags": [str(t) for t in tags]}


def nontrivial(case, impl_out):
    t = case.get("tags", [])
    if not t:
        return False
    if t[0] in ("add", "sub", "mul", "div"):
        return t[2] != t[3] or t[4] == "True"
    return True


def classify(prog, actual, expected, diff):
    names = [o.get("name", o["op"]) for o in prog if o["op"] in ("bin", "un", "pow", "rbin")]
    dts = sorted({o["v"]["dtype"] for o in prog if o["op"] == "arr"})
    return ("Array._wrap_numpy" if ".unit" in (diff or "") else "Array._binary_op", "/".join(names) + ":" + ",".join(dts))


def run(ctx):
    n = 900 if ctx.tier == "quick" else 20000
    cases = []
    ge = G(ctx.rng, ctx.osyris, "exact")
    gt = G(ctx.rng, ctx.osyris, "tol")
    for i in range(n):
        cases.append(gen_case(ge if i % 3 else gt))
    out = run_programs(ctx, cases, nontrivial, known_classifier=classify)
    dist = {}
    for c in cases:
        k = c["tags"][0] + ":" + c["lane"]
        dist[k] = dist.get(k, 0) + 1
    errs = {}
    out.distribution = {"op:lane": dist}
    out.rule = ("one arithmetic expression per case: operator in {+,-,*,/,neg,**k,k*a,k/a} x shapes {0-d,1-d,2-d,broadcastable and "
                "non-broadcastable pairs, empty} x dtypes {f8,f4,i8,i4}^2 x unit pairs within and across families x right-operand kinds "
                "{Array, Python number, ndarray, Quantity}; exact lane (2/3) and tolerant lane (1/3); operands re-observed after the "
                "operation; non-trivial = operands differ in unit or dtype (binary) or any unary/scalar form; distinct by program hash")
    return out


def replay(ctx, path):
    return replay_core(ctx, path)
