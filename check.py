#!/venv/bin/python
"""CLI used by MANIFEST commands:  check.py Cxx --tier quick|thorough [--replay path]"""
import argparse
import importlib
import os
import sys

sys.path.insert(0, os.path.dirname(os.path.abspath(__file__)))


def main():
    ap = argparse.ArgumentParser()
    ap.add_argument("prop")
    ap.add_argument("--tier", default=os.environ.get("VERIF_TIER", "quick"), choices=["quick", "thorough"])
    ap.add_argument("--replay", default=None)
    a = ap.parse_args()
    from harness import env

    env.setup_process()
    from harness import framework

    module = importlib.import_module("harness.props." + a.prop.lower())
    sys.exit(framework.main_run(module, a.prop, a.tier, a.replay))


if __name__ == "__main__":
    main()
